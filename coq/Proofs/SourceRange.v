(* NackPair.Range / NackPair.PacketList as translated from the Go source (callback iteration rendered as a state-passing
   function) equal the model's nack_range / packet_list; consequences of C12 restated on the translated functions only. *)
From RTCP Require Import Proofs.Tactics Lib.GoSem Gen.Funcs Proofs.GoSemFacts
  Model.Header Model.Feedback Spec.NackSpec Proofs.NackEnum Proofs.NackProofs
  Proofs.SrcConv Proofs.SourceNackPairs Proofs.SourceTheoremsC12.
Local Open Scope Z_scope.

(* ================================================================================================ *)
Section MoreGoSemFacts.

Lemma Zldiff_N a b : Z.ldiff (Z.of_N a) (Z.of_N b) = Z.of_N (N.ldiff a b).
Proof.
  apply Z.bits_inj'. intros n Hn. rewrite Z.ldiff_spec, !Z.testbit_of_N' by exact Hn.
  rewrite N.ldiff_spec. reflexivity.
Qed.

(* uint16(1) << i for an in-range bit index *)
Lemma bit16 i : (i < 16)%N -> uwrap 16 (gshl 1 (Z.of_N i)) = Z.of_N (2 ^ i).
Proof.
  intros H. rewrite uwrap16_gshl_l, shl16_1_shl. unfold shl16_1.
  destruct (N.ltb_spec i 16); [reflexivity|lia].
Qed.

Lemma Nland_pow2 b i : N.land b (2 ^ i) = if N.testbit b i then (2 ^ i)%N else 0%N.
Proof.
  apply N.bits_inj. intros m. rewrite N.land_spec, N.pow2_bits_eqb.
  destruct (N.testbit b i) eqn:E.
  - rewrite N.pow2_bits_eqb. destruct (N.eqb_spec i m) as [->|_]; [rewrite E; reflexivity|apply andb_false_r].
  - rewrite N.bits_0. destruct (N.eqb_spec i m) as [<-|_]; [rewrite E; reflexivity|apply andb_false_r].
Qed.

(* b & (1 << i) == 0 *)
Lemma land_bit_test b i : (i < 16)%N ->
  (Z.land (Z.of_N b) (uwrap 16 (gshl 1 (Z.of_N i))) =? 0) = negb (N.testbit b i).
Proof.
  intros H. rewrite bit16, Zland_N, Nland_pow2 by exact H. destruct (N.testbit b i); cbn [negb]; [|reflexivity].
  apply Z.eqb_neq. pose proof (N.pow_nonzero 2 i). lia.
Qed.

(* b &^= 1 << i *)
Lemma ldiff_bit b i : (i < 16)%N ->
  Z.ldiff (Z.of_N b) (uwrap 16 (gshl 1 (Z.of_N i))) = Z.of_N (N.clearbit b i).
Proof. intros H. rewrite bit16, Zldiff_N by exact H. rewrite N.clearbit_spec'. reflexivity. Qed.

Lemma next_i i : (i < 16)%N -> uwrap 16 (Z.of_N i + 1) = Z.of_N (i + 1).
Proof. intros H. unfold uwrap. change (2 ^ 16) with 65536. lia. Qed.

(* n.PacketID + i + 1 in uint16 arithmetic; no bound on the operands is needed *)
Lemma seqno_eq id i : uwrap 16 (uwrap 16 (Z.of_N id + Z.of_N i) + 1) = Z.of_N (u16 (id + i + 1)).
Proof. unfold uwrap, u16. change (2 ^ 16) with 65536. lia. Qed.

End MoreGoSemFacts.

(* ================================================================================================ *)
(* 1. the meaning of "calling f on the elements of l until it answers false"                         *)
(* ================================================================================================ *)
Fixpoint feed {St : Type} (f : St -> Z -> St * bool) (st : St) (l : list Z) : St :=
  match l with
  | [] => st
  | x :: l' => let '(st', more) := f st x in if more then feed f st' l' else st'
  end.

Lemma feed_collect : forall l acc, feed (fun (c : list Z) x => (c ++ [x], true)) acc l = acc ++ l.
Proof.
  induction l as [|x l IH]; intros acc; cbn [feed]; [rewrite app_nil_r; reflexivity|].
  rewrite IH, <- app_assoc. reflexivity.
Qed.

(* the counting callback: records its arguments; the k-th call (0-based) answers false *)
Definition stopper (k : nat) : nat * list Z -> Z -> (nat * list Z) * bool :=
  fun s x => ((S (fst s), snd s ++ [x]), negb (Nat.eqb (fst s) k)).

Lemma feed_stopper k : forall l c acc, (c <= k)%nat ->
  snd (feed (stopper k) (c, acc) l) = acc ++ firstn (S (k - c)) l.
Proof.
  induction l as [|x l IH]; intros c acc Hc; cbn [feed].
  - rewrite firstn_nil, app_nil_r. reflexivity.
  - unfold stopper at 1. cbn [fst snd]. destruct (Nat.eqb_spec c k) as [->|Hne]; cbn [negb].
    + rewrite Nat.sub_diag. reflexivity.
    + rewrite IH by lia. replace (k - c)%nat with (S (k - S c)) by lia. cbn [firstn].
      rewrite <- app_assoc. reflexivity.
Qed.

(* ================================================================================================ *)
(* 2. the loop                                                                                       *)
(* ================================================================================================ *)
(* invariant on the remaining bitmap: every set bit has an index in [i, 16) *)
Definition bits_in (b i : N) : Prop := forall m, N.testbit b m = true -> (i <= m < 16)%N.

Lemma bits_in_init b : (b < 65536)%N -> bits_in b 0.
Proof.
  intros Hb m Hm. split; [lia|]. destruct (N.ltb_spec m 16) as [H|H]; [exact H|]. exfalso.
  destruct (N.eq_dec b 0) as [->|Hne]; [rewrite N.bits_0 in Hm; discriminate|].
  assert (Hl : (N.log2 b < 16)%N) by (apply N.log2_lt_pow2; [lia|exact Hb]).
  rewrite N.bits_above_log2 in Hm by lia. discriminate.
Qed.
Lemma bits_in_nz b i : bits_in b i -> b <> 0%N -> (i < 16)%N.
Proof. intros H Hne. specialize (H (N.log2 b) (N.bit_log2 b Hne)). lia. Qed.
Lemma bits_in_skip b i : bits_in b i -> N.testbit b i = false -> bits_in b (i + 1).
Proof.
  intros H Hf m Hm. specialize (H m Hm). destruct (N.eq_dec m i) as [->|Hne]; [congruence|lia].
Qed.
Lemma bits_in_clear b i : bits_in b i -> bits_in (N.clearbit b i) (i + 1).
Proof.
  intros H m Hm. rewrite N.clearbit_eqb in Hm. apply andb_true_iff in Hm as [H1 H2].
  specialize (H m H1). destruct (N.eqb_spec i m); [discriminate|lia].
Qed.

Lemma Range_loop {St : Type} (f : St -> Z -> St * bool) p : forall fuel b i budget more st,
  bits_in b i -> (i <= 16)%N -> (17 <= fuel + N.to_nat i)%nat -> (17 <= budget + N.to_nat i)%nat ->
  GoSrc.NackPair_Range_loop1 St f fuel (Z.of_N b) (Z.of_N i) more (src_pair p) st
  = Ok (feed f st (map Z.of_N (map (fun i => u16 (np_id p + i + 1)) (range_idx fuel b i budget)))).
Proof.
  induction fuel as [|fuel IH]; intros b i budget more st Hb Hi Hf Hbud; [lia|].
  cbn [GoSrc.NackPair_Range_loop1 range_idx]. cbv zeta.
  rewrite Zeqb_N_0r.
  destruct (N.eqb_spec b 0) as [->|Hnz]; cbn [negb].
  - reflexivity.
  - assert (Hi16 : (i < 16)%N) by (apply (bits_in_nz b i); assumption).
    rewrite land_bit_test by exact Hi16. rewrite negb_involutive.
    destruct (N.testbit b i) eqn:Hbit.
    + destruct budget as [|bd]; [lia|]. cbn [map feed].
      change (GoSrc.NackPair_PacketID (src_pair p)) with (Z.of_N (np_id p)).
      rewrite seqno_eq.
      destruct (f st (Z.of_N (u16 (np_id p + i + 1)))) as [st2 t].
      destruct t; cbn [negb]; [|reflexivity].
      rewrite ldiff_bit, next_i by exact Hi16.
      apply IH; [apply bits_in_clear; exact Hb|lia|lia|lia].
    + rewrite next_i by exact Hi16.
      apply IH; [apply bits_in_skip; assumption|lia|lia|lia].
Qed.

(* NackPair.Range: for every callback and state, f is called exactly on the elements of the model's packet list, in order,
   until it answers false; never Fuel or Panic.  Only the bitmap has to be a uint16 (see Range_bitmap_bound_needed). *)
Theorem src_NackPair_Range : forall (St : Type) (f : St -> Z -> St * bool) (st : St) (p : NackPair),
  (np_bm p < 65536)%N ->
  GoSrc.NackPair_Range St f (src_pair p) st = Ok (feed f st (zN (packet_list p))).
Proof.
  intros St f st p Hb. unfold GoSrc.NackPair_Range, packet_list, nack_range, zN. cbv zeta. cbn [map feed].
  change (GoSrc.NackPair_PacketID (src_pair p)) with (Z.of_N (np_id p)).
  destruct (f st (Z.of_N (np_id p))) as [st1 t]. destruct t; cbn [negb]; [|reflexivity].
  change (GoSrc.NackPair_LostPackets (src_pair p)) with (Z.of_N (np_bm p)).
  apply (Range_loop f p 17 (np_bm p) 0%N 17 true st1); [apply bits_in_init; exact Hb|lia|lia|lia].
Qed.

(* the bound on the bitmap cannot be dropped: outside uint16 the translated loop has no exit within its 17 iterations *)
Lemma Range_bitmap_bound_needed :
  GoSrc.NackPair_Range unit (fun s _ => (s, true)) (src_pair {| np_id := 0; np_bm := 65536 |}) tt = Fuel.
Proof. vm_compute. reflexivity. Qed.

(* 3. NackPair.PacketList *)
Theorem src_NackPair_PacketList : forall p, (np_bm p < 65536)%N ->
  GoSrc.NackPair_PacketList (src_pair p) = Ok (zN (packet_list p)).
Proof.
  intros p Hb. unfold GoSrc.NackPair_PacketList.
  change (@gmakel Z 0 0) with (Ok (@nil Z)). cbn [bind].
  rewrite src_NackPair_Range by exact Hb. cbn [bind]. rewrite feed_collect. reflexivity.
Qed.

(* ================================================================================================ *)
(* 4. early stop                                                                                     *)
(* ================================================================================================ *)
Local Open Scope N_scope.
Lemma range_idx_budget_prefix : forall fuel b i (k k' : nat), (k <= k')%nat ->
  range_idx fuel b i k = firstn (S k) (range_idx fuel b i k').
Proof.
  induction fuel as [|fuel IH]; intros b i k k' Hk; [reflexivity|]. cbn [range_idx].
  destruct (b =? 0); [reflexivity|]. destruct (N.testbit b i).
  - destruct k as [|k], k' as [|k']; try lia; try reflexivity.
    rewrite firstn_cons. f_equal. apply IH. lia.
  - apply IH. exact Hk.
Qed.
Lemma range_idx_length : forall fuel b i k, (length (range_idx fuel b i k) <= fuel)%nat.
Proof.
  induction fuel as [|fuel IH]; intros b i k; [cbn; lia|]. cbn [range_idx].
  destruct (b =? 0); [cbn; lia|]. destruct (N.testbit b i).
  - destruct k as [|k]; cbn [length]; [lia|]. specialize (IH (N.clearbit b i) (i + 1) k). lia.
  - specialize (IH b (i + 1) k). lia.
Qed.

(* the model's early-stop form is a prefix of its packet list: for every k and every pair (no bound needed) *)
Lemma nack_range_prefix p k : nack_range p (Some k) = firstn (S k) (packet_list p).
Proof.
  unfold packet_list, nack_range. cbv zeta. destruct k as [|k]; [reflexivity|].
  rewrite firstn_cons. f_equal. rewrite firstn_map. f_equal.
  destruct (le_lt_dec k 17) as [Hk|Hk].
  - apply range_idx_budget_prefix. exact Hk.
  - rewrite (range_idx_budget_prefix 17 (np_bm p) 0 17 k) by lia.
    pose proof (range_idx_length 17 (np_bm p) 0 k) as Hl.
    rewrite (firstn_all2 (n := 18)) by lia. rewrite firstn_all2 by lia. reflexivity.
Qed.
Local Close Scope N_scope.

(* the calls made when the k-th call (0-based) is the first to answer false are the model's nack_range p (Some k) *)
Theorem src_NackPair_Range_stop : forall p k, (np_bm p < 65536)%N ->
  res_map snd (GoSrc.NackPair_Range _ (stopper k) (src_pair p) (0%nat, [])) = Ok (zN (nack_range p (Some k))).
Proof.
  intros p k Hb. rewrite src_NackPair_Range by exact Hb. cbn [res_map].
  rewrite feed_stopper by lia. rewrite nack_range_prefix. unfold zN. rewrite firstn_map, Nat.sub_0_r. reflexivity.
Qed.

(* ================================================================================================ *)
(* 5. C12 on the translated functions only                                                           *)
(* ================================================================================================ *)
(* a Go NackPair value: PacketID and LostPackets are uint16 (only the lower bound of PacketID is ever used) *)
Definition go_pair (q : GoSrc.NackPair) : Prop :=
  0 <= GoSrc.NackPair_PacketID q /\ 0 <= GoSrc.NackPair_LostPackets q < 65536.

Lemma go_pair_src q : go_pair q -> exists p, q = src_pair p /\ (np_bm p < 65536)%N.
Proof.
  destruct q as [id bm]. unfold go_pair. cbn [GoSrc.NackPair_PacketID GoSrc.NackPair_LostPackets]. intros [Hid Hbm].
  exists {| np_id := Z.to_N id; np_bm := Z.to_N bm |}. unfold src_pair. cbn [np_id np_bm].
  rewrite !Z2N.id by lia. split; [reflexivity|lia].
Qed.

Definition idx16Z : list Z := [0;1;2;3;4;5;6;7;8;9;10;11;12;13;14;15].
(* RFC 4585 6.2.1 on the Go value: the ID, then ID+i+1 mod 2^16 for each set bit i, ascending *)
Definition src_packet_list_spec (q : GoSrc.NackPair) : list Z :=
  GoSrc.NackPair_PacketID q ::
  map (fun i => (GoSrc.NackPair_PacketID q + i + 1) mod 65536)
      (filter (fun i => Z.testbit (GoSrc.NackPair_LostPackets q) i) idx16Z).

Lemma filter_map_swap {A B} (g : A -> B) (P : B -> bool) l :
  filter P (map g l) = map g (filter (fun x => P (g x)) l).
Proof. induction l as [|x l IH]; [reflexivity|]. cbn [map filter]. destruct (P (g x)); cbn [map]; rewrite IH; reflexivity. Qed.

Lemma zN_packet_list_spec p : (np_bm p < 65536)%N -> zN (packet_list p) = src_packet_list_spec (src_pair p).
Proof.
  intros Hb. rewrite packet_list_is_spec by exact Hb. unfold packet_list_spec, src_packet_list_spec, zN. cbn [map].
  change (GoSrc.NackPair_PacketID (src_pair p)) with (Z.of_N (np_id p)).
  change (GoSrc.NackPair_LostPackets (src_pair p)) with (Z.of_N (np_bm p)).
  f_equal. change idx16Z with (map Z.of_N idx16). rewrite filter_map_swap, !map_map.
  rewrite (filter_ext (fun x => Z.testbit (Z.of_N (np_bm p)) (Z.of_N x)) (fun i => N.testbit (np_bm p) i))
    by (intros a; apply Z.testbit_of_N).
  apply map_ext. intros i. lia.
Qed.

(* C12_packet_list_spec on the translated PacketList *)
Theorem source_C12_packet_list_spec : forall q, go_pair q ->
  GoSrc.NackPair_PacketList q = Ok (src_packet_list_spec q).
Proof.
  intros q Hq. destruct (go_pair_src q Hq) as (p & -> & Hb).
  rewrite src_NackPair_PacketList by exact Hb. rewrite zN_packet_list_spec by exact Hb. reflexivity.
Qed.

(* Range is "feed over PacketList", for every callback (C12_range_all / C12_range_stops in their general form) *)
Theorem source_C12_range_feeds : forall (St : Type) (f : St -> Z -> St * bool) (st : St) q, go_pair q ->
  GoSrc.NackPair_Range St f q st = res_map (feed f st) (GoSrc.NackPair_PacketList q).
Proof.
  intros St f st q Hq. destruct (go_pair_src q Hq) as (p & -> & Hb).
  rewrite src_NackPair_Range, src_NackPair_PacketList by exact Hb. reflexivity.
Qed.

(* C12_range_stops: when the k-th call is the first to answer false, exactly the first k+1 numbers of PacketList were visited *)
Theorem source_C12_range_stops : forall q k, go_pair q ->
  res_map snd (GoSrc.NackPair_Range _ (stopper k) q (0%nat, [])) = res_map (firstn (S k)) (GoSrc.NackPair_PacketList q).
Proof.
  intros q k Hq. rewrite source_C12_range_feeds by exact Hq. rewrite source_C12_packet_list_spec by exact Hq.
  cbn [res_map]. rewrite feed_stopper by lia. rewrite Nat.sub_0_r. reflexivity.
Qed.

Theorem source_C12_packet_list_head : forall q, go_pair q ->
  exists t, GoSrc.NackPair_PacketList q = Ok (GoSrc.NackPair_PacketID q :: t).
Proof. intros q Hq. eexists. rewrite source_C12_packet_list_spec by exact Hq. reflexivity. Qed.

Lemma filter_length_le_Z (P : Z -> bool) l : (length (filter P l) <= length l)%nat.
Proof. induction l as [|x l IH]; cbn [filter length]; [lia|]. destruct (P x); cbn [length]; lia. Qed.

(* 1 + the number of set bits, at most 17 *)
Theorem source_C12_packet_list_length : forall q, go_pair q ->
  exists l, GoSrc.NackPair_PacketList q = Ok l /\
    length l = S (length (filter (fun i => Z.testbit (GoSrc.NackPair_LostPackets q) i) idx16Z)) /\ (length l <= 17)%nat.
Proof.
  intros q Hq. eexists. split; [apply source_C12_packet_list_spec; exact Hq|].
  unfold src_packet_list_spec. cbn [length]. rewrite map_length. split; [reflexivity|].
  pose proof (filter_length_le_Z (fun i => Z.testbit (GoSrc.NackPair_LostPackets q) i) idx16Z) as H.
  change (length idx16Z) with 16%nat in H. lia.
Qed.

Lemma In_idx16Z i : In i idx16Z <-> 0 <= i < 16.
Proof.
  unfold idx16Z. cbn [In]. split; [intros H; lia|]. intros H.
  assert (i = 0 \/ i = 1 \/ i = 2 \/ i = 3 \/ i = 4 \/ i = 5 \/ i = 6 \/ i = 7 \/ i = 8 \/ i = 9 \/ i = 10 \/ i = 11
          \/ i = 12 \/ i = 13 \/ i = 14 \/ i = 15) by lia.
  intuition.
Qed.

Lemma In_src_packet_list_spec q s : In s (src_packet_list_spec q) <-> src_pair_covers q s.
Proof.
  unfold src_packet_list_spec, src_pair_covers. cbn [In]. rewrite in_map_iff. split.
  - intros [H|(i & Hs & Hin)]; [left; auto|]. apply filter_In in Hin as [Hin Ht]. apply In_idx16Z in Hin.
    right. exists i. auto.
  - intros [H|(i & Hi & Ht & Hs)]; [left; auto|]. right. exists i. split; [auto|].
    apply filter_In. split; [apply In_idx16Z; exact Hi|exact Ht].
Qed.

(* x is in the list iff x = id or x = id + i + 1 mod 2^16 for a set bit i < 16 *)
Theorem source_C12_packet_list_members : forall q, go_pair q ->
  exists l, GoSrc.NackPair_PacketList q = Ok l /\ forall s, In s l <-> src_pair_covers q s.
Proof.
  intros q Hq. eexists. split; [apply source_C12_packet_list_spec; exact Hq|]. apply In_src_packet_list_spec.
Qed.

Lemma NoDup_map_inj_in {A B} (g : A -> B) l :
  (forall x y, In x l -> In y l -> g x = g y -> x = y) -> NoDup l -> NoDup (map g l).
Proof.
  intros Hinj Hnd. induction Hnd as [|x l Hx Hnd IH]; cbn [map]; constructor.
  - intros Hin. apply in_map_iff in Hin as (y & Hy & Hin). apply Hx.
    rewrite (Hinj x y); [exact Hin|left; reflexivity|right; exact Hin|symmetry; exact Hy].
  - apply IH. intros a b Ha Hb. apply Hinj; right; assumption.
Qed.
Lemma NoDup_idx16Z : NoDup idx16Z.
Proof. unfold idx16Z. repeat (constructor; [cbn [In]; lia|]). constructor. Qed.

Theorem source_C12_packet_list_nodup : forall q, go_pair q ->
  exists l, GoSrc.NackPair_PacketList q = Ok l /\ NoDup l.
Proof.
  intros q Hq. eexists. split; [apply source_C12_packet_list_spec; exact Hq|].
  destruct Hq as [Hid _]. unfold src_packet_list_spec. constructor.
  - intros Hin. apply in_map_iff in Hin as (i & Hs & Hin). apply filter_In in Hin as [Hin _].
    apply In_idx16Z in Hin. lia.
  - apply NoDup_map_inj_in.
    + intros x y Hx Hy Hxy. apply filter_In in Hx as [Hx _]. apply filter_In in Hy as [Hy _].
      apply In_idx16Z in Hx. apply In_idx16Z in Hy. lia.
    + apply NoDup_filter. exact NoDup_idx16Z.
Qed.

(* round trip (C12_pairs_cover): the PacketLists of the pairs built from l cover exactly the elements of l *)
Theorem source_C12_roundtrip : forall lz : list Z, Forall (fun x => 0 <= x < 65536) lz ->
  exists ps ls, GoSrc.NackPairsFromSequenceNumbers lz = Ok ps /\
                Forall2 (fun q r => GoSrc.NackPair_PacketList q = Ok r) ps ls /\
                forall s, In s (concat ls) <-> In s lz.
Proof.
  intros lz Hlz. set (l := map Z.to_N lz).
  assert (Hzl : zN l = lz).
  { unfold zN, l. rewrite map_map. rewrite <- (map_id lz) at 2. apply map_ext_in. intros x Hx.
    rewrite Forall_forall in Hlz. specialize (Hlz x Hx). lia. }
  assert (Hl : Forall (fun x => (x < 65536)%N) l).
  { unfold l. rewrite Forall_forall in *. intros x Hx. apply in_map_iff in Hx as (z & <- & Hz). specialize (Hlz z Hz). lia. }
  exists (map src_pair (nack_pairs_from l)), (map (fun p => zN (packet_list p)) (nack_pairs_from l)).
  split; [rewrite <- Hzl; apply src_NackPairsFromSequenceNumbers|]. split.
  - pose proof (pairs_bitmaps l) as Hbm. induction Hbm as [|p L Hp _ IH]; cbn [map]; constructor; [|exact IH].
    apply src_NackPair_PacketList. exact Hp.
  - intros s. unfold zN at 1. rewrite <- map_map, <- concat_map, <- flat_map_concat_map. rewrite <- Hzl. unfold zN.
    rewrite !in_map_iff. split; intros (n & Hn & Hin); exists n; (split; [exact Hn|]); apply (pairs_cover l n Hl); exact Hin.
Qed.

Print Assumptions src_NackPair_Range.
Print Assumptions src_NackPair_PacketList.
Print Assumptions src_NackPair_Range_stop.
Print Assumptions Range_bitmap_bound_needed.
Print Assumptions source_C12_packet_list_spec.
Print Assumptions source_C12_range_feeds.
Print Assumptions source_C12_range_stops.
Print Assumptions source_C12_packet_list_head.
Print Assumptions source_C12_packet_list_length.
Print Assumptions source_C12_packet_list_members.
Print Assumptions source_C12_packet_list_nodup.
Print Assumptions source_C12_roundtrip.
