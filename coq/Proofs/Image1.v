(* C09 support: the IMAGE of the decoders of SR, RR, SDES, BYE, APP on ARBITRARY octets lies in the RFC domain D_T
   (on which encode-then-decode is the identity), hence re-encoding a decoded packet and decoding again is stable. *)
From RTCP Require Import Proofs.Tactics Proofs.HeaderProofs Proofs.Total1 Proofs.EncReports Proofs.EncSdesByeApp
  Model.Header Model.Reports Model.Sdes Model.ByeApp Spec.Enc.
Local Open Scope N_scope.

(* ---------------------------------------------------------------- generic helpers *)
Lemma fits_intro w x : x < 2 ^ w -> fits w x = true.
Proof. intros H. unfold fits. apply N.ltb_lt. exact H. Qed.

Lemma get_be4_fits b off x : get_be_at 4 b off = Ok x -> fits 32 x = true.
Proof.
  intros H. apply get_be_at_lt in H. apply fits_intro.
  change (256 ^ N.of_nat 4) with 4294967296 in H. change (2 ^ 32) with 4294967296. exact H.
Qed.

Lemma get_be8_fits b off x : get_be_at 8 b off = Ok x -> fits 64 x = true.
Proof.
  intros H. apply get_be_at_lt in H. apply fits_intro.
  change (256 ^ N.of_nat 8) with 18446744073709551616 in H. change (2 ^ 64) with 18446744073709551616. exact H.
Qed.

Lemma b2n_fits8 x : fits 8 (b2n x) = true.
Proof. apply fits_intro. change (2 ^ 8) with 256. apply b2n_lt. Qed.

Lemma lost_lt t0 t1 t2 : t0 < 256 -> t1 < 256 -> t2 < 256 ->
  N.lor (N.lor t2 (t1 * 256)) (t0 * 65536) < 16777216.
Proof.
  intros H0 H1 H2.
  rewrite (lor_disjoint_add_r t2 (t1 * 256) 8) by (change (2 ^ 8) with 256; lia).
  rewrite (lor_disjoint_add_r (t2 + t1 * 256) (t0 * 65536) 16) by (change (2 ^ 16) with 65536; lia).
  lia.
Qed.

Lemma nth_skipn0 {A} (d : A) : forall n (l : list A), nth 0 (skipn n l) d = nth n l d.
Proof.
  induction n as [|n IH]; intros l; [reflexivity|]. destruct l as [|x l]; [reflexivity|].
  cbn [skipn nth]. apply IH.
Qed.

(* ================================================================ reception report block *)
Lemma RRep_unmarshal_image b r : RRep_unmarshal b = Ok r -> D_rrep r = true.
Proof.
  unfold RRep_unmarshal. consts.
  destruct (N.ltb_spec (len b) 24) as [|Hl]; [discriminate|].
  destruct (get_be_at 4 b 0) as [s| | |] eqn:E1; cbn [bind]; try discriminate.
  rewrite !idx_ok by lia. cbn [bind].
  destruct (get_be_at 4 b 8) as [sq| | |] eqn:E2; cbn [bind]; try discriminate.
  destruct (get_be_at 4 b 12) as [j| | |] eqn:E3; cbn [bind]; try discriminate.
  destruct (get_be_at 4 b 16) as [l| | |] eqn:E4; cbn [bind]; try discriminate.
  destruct (get_be_at 4 b 20) as [d| | |] eqn:E5; cbn [bind]; try discriminate.
  intros [= <-]. unfold D_rrep. cbn [rr_ssrc rr_frac rr_lost rr_seq rr_jit rr_lsr rr_delay].
  rewrite !andb_true_iff. repeat split; try (eapply get_be4_fits; eassumption).
  - apply b2n_fits8.
  - apply fits_intro. change (2 ^ 24) with 16777216. apply lost_lt; apply b2n_lt.
Qed.

(* ================================================================ SR *)
Lemma sr_reports_loop_image : forall k body off rs off',
  sr_reports_loop k body off = Ok (rs, off') -> forallb D_rrep rs = true.
Proof.
  induction k as [|k IH]; intros body off rs off'; cbn [sr_reports_loop].
  - intros [= <- <-]. reflexivity.
  - consts. destruct (N.ltb_spec (len body) (off + 24)); [discriminate|].
    destruct (slice body off (off + 24)) as [sub| | |]; cbn [bind]; try discriminate.
    destruct (RRep_unmarshal sub) as [r| | |] eqn:ER; cbn [bind]; try discriminate.
    destruct (sr_reports_loop k body (off + 24)) as [[rs1 off1]| | |] eqn:EL; cbn [bind]; try discriminate.
    intros [= <- <-]. cbn [forallb]. rewrite (RRep_unmarshal_image _ _ ER), (IH _ _ _ _ EL). reflexivity.
Qed.

(* the alignment hypothesis is only used for the profile extension *)
Lemma SR_unmarshal_image b s : SR_unmarshal b = Ok s -> len b mod 4 = 0 -> D_SR s = true.
Proof.
  intros H Hal. revert H. unfold SR_unmarshal. consts.
  destruct (N.ltb_spec (len b) (4 + 24)); [discriminate|].
  destruct (Header_unmarshal b) as [h| | |] eqn:EH; cbn [bind]; try discriminate.
  apply Header_unmarshal_bounds in EH as (Hc & _ & _).
  destruct (negb _); [discriminate|].
  rewrite slice_from_ok by lia. cbn [bind].
  set (body := skipn (N.to_nat 4) b).
  assert (Hb : len body = len b - 4) by (unfold body; rewrite len_skipn; lia).
  destruct (get_be_at 4 body 0) as [ssrc| | |] eqn:E1; cbn [bind]; try discriminate.
  destruct (get_be_at 8 body 4) as [ntp| | |] eqn:E2; cbn [bind]; try discriminate.
  destruct (get_be_at 4 body 12) as [rtp| | |] eqn:E3; cbn [bind]; try discriminate.
  destruct (get_be_at 4 body 16) as [pc| | |] eqn:E4; cbn [bind]; try discriminate.
  destruct (get_be_at 4 body 20) as [oc| | |] eqn:E5; cbn [bind]; try discriminate.
  destruct (sr_reports_loop (N.to_nat (h_count h)) body 24) as [[rs off']| | |] eqn:EL; cbn [bind]; try discriminate.
  pose proof (sr_reports_loop_image _ _ _ _ _ EL) as HR.
  apply sr_reports_loop_ok in EL as (O1 & O2 & O3).
  assert (Hn : (nl rs <=? 31) = true) by (apply N.leb_le; unfold nl; lia).
  destruct (N.ltb_spec off' (len body)).
  - rewrite slice_from_ok by lia. cbn [bind]. destruct (negb _); [discriminate|].
    intros [= <-]. unfold D_SR. cbn [sr_ssrc sr_ntp sr_rtp sr_pcount sr_ocount sr_reports sr_ext].
    rewrite (get_be4_fits _ _ _ E1), (get_be8_fits _ _ _ E2), (get_be4_fits _ _ _ E3), (get_be4_fits _ _ _ E4),
      (get_be4_fits _ _ _ E5), Hn, HR. cbn [andb].
    apply N.eqb_eq. rewrite len_skipn. unfold nlen in O1. lia.
  - cbn [bind]. destruct (negb _); [discriminate|].
    intros [= <-]. unfold D_SR. cbn [sr_ssrc sr_ntp sr_rtp sr_pcount sr_ocount sr_reports sr_ext].
    rewrite (get_be4_fits _ _ _ E1), (get_be8_fits _ _ _ E2), (get_be4_fits _ _ _ E3), (get_be4_fits _ _ _ E4),
      (get_be4_fits _ _ _ E5), Hn, HR. reflexivity.
Qed.

Lemma SR_reencode b s : SR_unmarshal b = Ok s -> len b mod 4 = 0 ->
  exists b', SR_marshal s = Ok b' /\ SR_unmarshal b' = Ok s.
Proof.
  intros H Hal. pose proof (SR_unmarshal_image b s H Hal) as HD.
  exists (enc_SR s). split; [apply SR_marshal_spec | apply SR_unmarshal_enc]; exact HD.
Qed.

Lemma SR_dec_enc_dec b s : SR_unmarshal b = Ok s -> len b mod 4 = 0 ->
  forall b', SR_marshal s = Ok b' -> SR_unmarshal b' = Ok s.
Proof. intros H Hal b' Hm. eapply SR_roundtrip; [apply (SR_unmarshal_image b s H Hal)|exact Hm]. Qed.

(* ================================================================ RR *)
Lemma rr_reports_loop_image : forall k raw i rs, rr_reports_loop k raw i = Ok rs -> forallb D_rrep rs = true.
Proof.
  induction k as [|k IH]; intros raw i rs; cbn [rr_reports_loop].
  - intros [= <-]. reflexivity.
  - consts. destruct (i <? len raw).
    + destruct (slice_from raw i) as [sub| | |]; cbn [bind]; try discriminate.
      destruct (RRep_unmarshal sub) as [r| | |] eqn:ER; cbn [bind]; try discriminate.
      destruct (rr_reports_loop k raw (i + 24)) as [rs1| | |] eqn:EL; cbn [bind]; try discriminate.
      intros [= <-]. cbn [forallb]. rewrite (RRep_unmarshal_image _ _ ER), (IH _ _ _ EL). reflexivity.
    + intros [= <-]. reflexivity.
Qed.

(* no hypothesis on the input is needed for the domain; alignment of the input gives alignment of the extension *)
Lemma RR_unmarshal_image_ext b r : RR_unmarshal b = Ok r ->
  D_RR r = true /\ (len b mod 4 = 0 -> len (rcv_ext r) mod 4 = 0).
Proof.
  unfold RR_unmarshal. consts.
  destruct (N.ltb_spec (len b) (4 + 4)); [discriminate|].
  destruct (Header_unmarshal b) as [h| | |] eqn:EH; cbn [bind]; try discriminate.
  apply Header_unmarshal_bounds in EH as (Hc & _ & _).
  destruct (negb _); [discriminate|].
  destruct (get_be_at 4 b 4) as [ssrc| | |] eqn:E1; cbn [bind]; try discriminate.
  destruct (rr_reports_loop (N.to_nat (h_count h)) b 8) as [rs| | |] eqn:EL; cbn [bind]; try discriminate.
  pose proof (rr_reports_loop_image _ _ _ _ EL) as HR.
  apply rr_reports_loop_ok in EL as [O1 O2]; [|lia].
  rewrite slice_from_ok by lia. cbn [bind].
  set (ext := skipn (N.to_nat (8 + _)) b).
  assert (Hext : len ext = len b - (8 + nlen rs * 24)) by (unfold ext; rewrite len_skipn; lia). clearbody ext.
  destruct (negb _); [discriminate|].
  intros [= <-]. unfold D_RR. cbn [rcv_ssrc rcv_reports rcv_ext]. split.
  - rewrite (get_be4_fits _ _ _ E1), HR, andb_true_r. cbn [andb]. apply N.leb_le. unfold nl. lia.
  - intros Hal. rewrite Hext. lia.
Qed.

Lemma RR_unmarshal_image b r : RR_unmarshal b = Ok r -> D_RR r = true.
Proof. intros H. apply (RR_unmarshal_image_ext b r H). Qed.

Lemma RR_unmarshal_ext_aligned b r : RR_unmarshal b = Ok r -> len b mod 4 = 0 -> len (rcv_ext r) mod 4 = 0.
Proof. intros H. apply (RR_unmarshal_image_ext b r H). Qed.

Lemma RR_unmarshal_q_fix b r : RR_unmarshal b = Ok r -> len b mod 4 = 0 -> q_RR r = r.
Proof. intros H Hal. apply q_RR_aligned. apply (RR_unmarshal_ext_aligned b r H Hal). Qed.

(* without alignment: stable up to the documented quantisation *)
Lemma RR_reencode_q b r : RR_unmarshal b = Ok r ->
  exists b', RR_marshal r = Ok b' /\ RR_unmarshal b' = Ok (q_RR r).
Proof.
  intros H. pose proof (RR_unmarshal_image b r H) as HD.
  exists (enc_RR r). split; [apply RR_marshal_spec | apply RR_unmarshal_enc]; exact HD.
Qed.

Lemma RR_reencode b r : RR_unmarshal b = Ok r -> len b mod 4 = 0 ->
  exists b', RR_marshal r = Ok b' /\ RR_unmarshal b' = Ok r.
Proof.
  intros H Hal. destruct (RR_reencode_q b r H) as (b' & H1 & H2). exists b'. split; [exact H1|].
  rewrite (RR_unmarshal_q_fix b r H Hal) in H2. exact H2.
Qed.

Lemma RR_dec_enc_dec_q b r : RR_unmarshal b = Ok r ->
  forall b', RR_marshal r = Ok b' -> RR_unmarshal b' = Ok (q_RR r).
Proof. intros H b' Hm. eapply RR_roundtrip; [apply (RR_unmarshal_image b r H)|exact Hm]. Qed.

Lemma RR_dec_enc_dec b r : RR_unmarshal b = Ok r -> len b mod 4 = 0 ->
  forall b', RR_marshal r = Ok b' -> RR_unmarshal b' = Ok r.
Proof.
  intros H Hal b' Hm. pose proof (RR_dec_enc_dec_q b r H b' Hm) as Hq.
  rewrite (RR_unmarshal_q_fix b r H Hal) in Hq. exact Hq.
Qed.

(* ================================================================ BYE *)
Lemma get_u32s_image : forall k raw off l, get_u32s k raw off = Ok l ->
  forallb (fits 32) l = true /\ length l = k.
Proof.
  induction k as [|k IH]; intros raw off l; cbn [get_u32s].
  - intros [= <-]. split; reflexivity.
  - destruct (get_be_at 4 raw off) as [x| | |] eqn:E1; cbn [bind]; try discriminate.
    destruct (get_u32s k raw (off + 4)) as [r| | |] eqn:E2; cbn [bind]; try discriminate.
    intros [= <-]. apply IH in E2 as [F L]. cbn [forallb length].
    rewrite (get_be4_fits _ _ _ E1), F, L. split; reflexivity.
Qed.

(* no hypothesis needed: the decoder itself insists on a 32-bit aligned input *)
Lemma BYE_unmarshal_image b g : BYE_unmarshal b = Ok g -> D_BYE g = true.
Proof.
  unfold BYE_unmarshal.
  destruct (Header_unmarshal b) as [h| | |] eqn:EH; cbn [bind]; try discriminate.
  apply Header_unmarshal_bounds in EH as (Hc & _ & _).
  destruct (negb _); [discriminate|].
  destruct (negb _); [discriminate|].
  rewrite (BYE_reason_offset h Hc). consts.
  destruct (N.ltb_spec (len b) (4 + 4 * h_count h)); [discriminate|].
  destruct (get_u32s (N.to_nat (h_count h)) b 4) as [l| | |] eqn:E; cbn [bind]; try discriminate.
  apply get_u32s_image in E as [Hf Hl].
  assert (Hn : (nl l <=? 31) = true) by (apply N.leb_le; unfold nl; lia).
  destruct (N.ltb_spec (4 + 4 * h_count h) (len b)).
  - reads_ok.
    match goal with |- context [if len b <? ?e then _ else _] => destruct (N.ltb_spec (len b) e) end; [discriminate|].
    rewrite slice_ok by lia. cbn [bind].
    match goal with |- context [b2n ?x] => pose proof (b2n_lt x) as Hx end.
    set (rs := firstn _ _).
    assert (Hr : len rs <= 255) by (unfold rs; rewrite len_firstn; lia).
    clearbody rs. intros [= <-]. unfold D_BYE. cbn [bye_sources bye_reason].
    rewrite Hn, Hf. cbn [andb]. apply N.leb_le. exact Hr.
  - cbn [bind]. intros [= <-]. unfold D_BYE. cbn [bye_sources bye_reason]. rewrite Hn, Hf. reflexivity.
Qed.

Lemma BYE_reencode b g : BYE_unmarshal b = Ok g ->
  exists b', BYE_marshal g = Ok b' /\ BYE_unmarshal b' = Ok g.
Proof.
  intros H. pose proof (BYE_unmarshal_image b g H) as HD.
  exists (enc_BYE g). split; [apply BYE_marshal_spec | apply BYE_unmarshal_enc]; exact HD.
Qed.

Lemma BYE_dec_enc_dec b g : BYE_unmarshal b = Ok g ->
  forall b', BYE_marshal g = Ok b' -> BYE_unmarshal b' = Ok g.
Proof.
  intros H b' Hm. pose proof (BYE_unmarshal_image b g H) as HD.
  rewrite BYE_marshal_spec in Hm by exact HD. injection Hm as <-. apply BYE_unmarshal_enc. exact HD.
Qed.

(* ================================================================ APP *)
(* what holds for every input: everything of D_APP except the 16-bit data bound *)
Lemma APP_unmarshal_image_gen b a : APP_unmarshal b = Ok a ->
  fits 5 (app_subtype a) = true /\ fits 32 (app_ssrc a) = true /\ len (app_name a) = 4 /\
  12 + len (app_data a) <= len b /\ len b <= 262140.
Proof.
  intros H. pose proof (APP_unmarshal_alloc_N _ _ H) as [Hd Hn]. revert H.
  unfold APP_unmarshal.
  destruct (Header_unmarshal b) as [h| | |] eqn:EH; cbn [bind]; try discriminate.
  apply Header_unmarshal_bounds in EH as (Hc & _ & Hlen).
  destruct (N.ltb_spec (len b) 12); [discriminate|].
  destruct (negb _); [discriminate|].
  destruct (N.eqb_spec (u16 (h_len h + 1) * 4) (len b)) as [Hsz|]; cbn [negb]; [|discriminate].
  destruct (get_be_at 4 b 4) as [ssrc| | |] eqn:E1; cbn [bind]; try discriminate.
  destruct (slice b 8 12) as [nm| | |]; cbn [bind]; try discriminate.
  assert (Hs : fits 5 (h_count h) = true) by (apply fits_intro; change (2 ^ 5) with 32; exact Hc).
  assert (Hmax : len b <= 262140) by (unfold u16 in Hsz; lia).
  destruct (h_pad h).
  - destruct (idx b (len b - 1)) as [last| | |]; cbn [bind]; try discriminate.
    destruct (len b - 12 <? b2n last); cbn [bind]; try discriminate.
    destruct (slice b 12 (len b - b2n last)) as [d| | |]; cbn [bind]; try discriminate.
    intros [= <-]. cbn [app_subtype app_ssrc app_name app_data] in *.
    rewrite (get_be4_fits _ _ _ E1). repeat split; assumption.
  - cbn [bind].
    destruct (slice b 12 (len b - 0)) as [d| | |]; cbn [bind]; try discriminate.
    intros [= <-]. cbn [app_subtype app_ssrc app_name app_data] in *.
    rewrite (get_be4_fits _ _ _ E1). repeat split; assumption.
Qed.

(* D_APP's data bound (what fits the 16-bit length field when re-encoded) needs a frame of at most 65535 octets *)
Lemma APP_unmarshal_image b a : APP_unmarshal b = Ok a -> len b <= 65535 -> D_APP a = true.
Proof.
  intros H Hl. apply APP_unmarshal_image_gen in H as (H1 & H2 & H3 & H4 & _).
  unfold D_APP. rewrite H1, H2, H3. cbn [andb N.eqb Pos.eqb]. apply N.leb_le. lia.
Qed.

(* the statement with only [len b mod 4 = 0] and [len b < 262144] is false: a 65540-octet APP frame decodes,
   but its 65528 data octets cannot be re-encoded (Marshal refuses) *)
Lemma APP_unmarshal_image_refuted :
  exists b a, APP_unmarshal b = Ok a /\ len b mod 4 = 0 /\ len b < 262144 /\ D_APP a = false /\ APP_marshal a = Err.
Proof.
  exists (hdr false 0 204 16384 ++ zeros 65536), (mkAPP 0 0 (zeros 4) (zeros 65528)).
  repeat split; vm_compute; reflexivity.
Qed.

Lemma APP_reencode b a : APP_unmarshal b = Ok a -> len b <= 65535 ->
  exists b', APP_marshal a = Ok b' /\ APP_unmarshal b' = Ok a.
Proof.
  intros H Hl. pose proof (APP_unmarshal_image b a H Hl) as HD.
  exists (enc_APP a). split; [apply APP_marshal_spec | apply APP_unmarshal_enc]; exact HD.
Qed.

(* here the size hypothesis is not needed: when Marshal succeeds the data bound holds *)
Lemma APP_dec_enc_dec b a : APP_unmarshal b = Ok a ->
  forall b', APP_marshal a = Ok b' -> APP_unmarshal b' = Ok a.
Proof.
  intros H b' Hm. apply APP_unmarshal_image_gen in H as (H1 & H2 & H3 & _).
  assert (Hok : exists x, APP_marshal a = Ok x) by (exists b'; exact Hm).
  apply APP_marshal_ok_iff in Hok as (_ & _ & Hd).
  assert (HD : D_APP a = true).
  { unfold D_APP. rewrite H1, H2, H3. cbn [andb N.eqb Pos.eqb]. apply N.leb_le. exact Hd. }
  rewrite APP_marshal_spec in Hm by exact HD. injection Hm as <-. apply APP_unmarshal_enc. exact HD.
Qed.

(* ================================================================ SDES *)
Lemma SItem_unmarshal_image b it : SItem_unmarshal b = Ok it ->
  it_type it = b2n (nth 0 b x00) /\ len (it_text it) <= 255.
Proof.
  unfold SItem_unmarshal. consts.
  destruct (N.ltb_spec (len b) (1 + 1)); [discriminate|].
  reads_ok.
  pose proof (b2n_lt (nth (N.to_nat 1) b x00)) as Hx.
  destruct (N.ltb_spec (len b) (2 + b2n (nth (N.to_nat 1) b x00))); [discriminate|].
  rewrite slice_ok by lia. cbn [bind].
  set (txt := firstn _ _).
  assert (Ht : len txt <= 255) by (unfold txt; rewrite len_firstn; lia).
  clearbody txt. intros [= <-]. cbn [it_type it_text]. split; [reflexivity|exact Ht].
Qed.

Lemma items_loop_image : forall fuel b i its, items_loop fuel b i = Ok its -> forallb D_item its = true.
Proof.
  induction fuel as [|f IH]; intros b i its; cbn [items_loop]; [discriminate|]. consts.
  destruct (N.ltb_spec i (len b)); [|discriminate].
  rewrite idx_ok by lia. cbn [bind].
  destruct (N.eqb_spec (b2n (nth (N.to_nat i) b x00)) 0) as [E0|E0].
  - intros [= <-]. reflexivity.
  - rewrite slice_from_ok by lia. cbn [bind].
    destruct (SItem_unmarshal _) as [it| | |] eqn:EI; cbn [bind]; try discriminate.
    apply SItem_unmarshal_image in EI as [T1 T2]. rewrite nth_skipn0 in T1.
    destruct (items_loop f b (i + SItem_len it)) as [its1| | |] eqn:EL; cbn [bind]; try discriminate.
    intros [= <-]. cbn [forallb]. rewrite (IH _ _ _ EL), andb_true_r.
    pose proof (b2n_lt (nth (N.to_nat i) b x00)) as Hx.
    unfold D_item, fits. change (2 ^ 8) with 256. rewrite T1.
    rewrite !andb_true_iff. repeat split; [apply N.ltb_lt; lia | apply N.ltb_lt; exact Hx | apply N.leb_le; exact T2].
Qed.

Lemma SChunk_unmarshal_image b c : SChunk_unmarshal b = Ok c -> D_chunk c = true.
Proof.
  unfold SChunk_unmarshal. consts.
  destruct (N.ltb_spec (len b) (4 + 1)); [discriminate|].
  destruct (get_be_at 4 b 0) as [s| | |] eqn:E1; cbn [bind]; try discriminate.
  destruct (items_loop (S (length b)) b 4) as [its| | |] eqn:EL; cbn [bind]; try discriminate.
  intros [= <-]. unfold D_chunk. cbn [ch_src ch_items].
  rewrite (get_be4_fits _ _ _ E1), (items_loop_image _ _ _ _ EL). reflexivity.
Qed.

Lemma chunks_loop_image : forall fuel raw i cs, chunks_loop fuel raw i = Ok cs -> forallb D_chunk cs = true.
Proof.
  induction fuel as [|f IH]; intros raw i cs; cbn [chunks_loop]; [discriminate|].
  destruct (i <? len raw).
  - destruct (slice_from raw i) as [sub| | |]; cbn [bind]; try discriminate.
    destruct (SChunk_unmarshal sub) as [c| | |] eqn:EC; cbn [bind]; try discriminate.
    destruct (chunks_loop f raw (i + SChunk_len c)) as [cs1| | |] eqn:EL; cbn [bind]; try discriminate.
    intros [= <-]. cbn [forallb]. rewrite (SChunk_unmarshal_image _ _ EC), (IH _ _ _ EL). reflexivity.
  - intros [= <-]. reflexivity.
Qed.

(* no hypothesis needed *)
Lemma SDES_unmarshal_image b s : SDES_unmarshal b = Ok s -> D_SDES s = true.
Proof.
  unfold SDES_unmarshal.
  destruct (Header_unmarshal b) as [h| | |] eqn:EH; cbn [bind]; try discriminate.
  apply Header_unmarshal_bounds in EH as (Hc & _ & _).
  destruct (negb _); [discriminate|].
  destruct (chunks_loop (S (length b)) b c_headerLength) as [cs| | |] eqn:EL; cbn [bind]; try discriminate.
  apply chunks_loop_image in EL.
  destruct (N.eqb_spec (nlen cs) (h_count h)) as [En|]; cbn [negb]; [|discriminate].
  intros [= <-]. unfold D_SDES. cbn [sd_chunks]. rewrite EL, andb_true_r.
  apply N.leb_le. unfold nl, nlen in *. lia.
Qed.

Lemma SDES_reencode b s : SDES_unmarshal b = Ok s ->
  exists b', SDES_marshal s = Ok b' /\ SDES_unmarshal b' = Ok s.
Proof.
  intros H. pose proof (SDES_unmarshal_image b s H) as HD.
  exists (enc_SDES s). split; [apply SDES_marshal_spec | apply SDES_unmarshal_enc]; exact HD.
Qed.

Lemma SDES_dec_enc_dec b s : SDES_unmarshal b = Ok s ->
  forall b', SDES_marshal s = Ok b' -> SDES_unmarshal b' = Ok s.
Proof.
  intros H b' Hm. pose proof (SDES_unmarshal_image b s H) as HD.
  rewrite SDES_marshal_spec in Hm by exact HD. injection Hm as <-. apply SDES_unmarshal_enc. exact HD.
Qed.

(* ================================================================ audit *)
Print Assumptions RRep_unmarshal_image.
Print Assumptions SR_unmarshal_image.
Print Assumptions SR_reencode.
Print Assumptions SR_dec_enc_dec.
Print Assumptions RR_unmarshal_image.
Print Assumptions RR_unmarshal_ext_aligned.
Print Assumptions RR_unmarshal_q_fix.
Print Assumptions RR_reencode_q.
Print Assumptions RR_reencode.
Print Assumptions RR_dec_enc_dec_q.
Print Assumptions RR_dec_enc_dec.
Print Assumptions BYE_unmarshal_image.
Print Assumptions BYE_reencode.
Print Assumptions BYE_dec_enc_dec.
Print Assumptions APP_unmarshal_image_gen.
Print Assumptions APP_unmarshal_image.
Print Assumptions APP_unmarshal_image_refuted.
Print Assumptions APP_reencode.
Print Assumptions APP_dec_enc_dec.
Print Assumptions SDES_unmarshal_image.
Print Assumptions SDES_reencode.
Print Assumptions SDES_dec_enc_dec.
