(* C01 (totality: no panic, loops terminate within the fuel the model gives them) and the
   allocation facts for the feedback packet types:
   NACK, PLI, RRR, SLI, FIR (Model/Feedback.v), REMB (Model/Remb.v), RawPacket (Model/Packet.v),
   the TWCC chunk/delta codecs (Model/Twcc.v) and CCFB (Model/Ccfb.v). *)
From RTCP Require Import Proofs.Tactics Proofs.HeaderProofs
  Model.Header Model.Reports Model.Feedback Model.Remb Model.Twcc Model.Ccfb Model.Packet.
Local Open Scope N_scope.

(* ---------- shared facts ---------- *)
Lemma u16_4x_mod4 x : u16 (4 * x) mod 4 = 0.
Proof. unfold u16. lia. Qed.
Lemma u16_lt x : u16 x < 65536.
Proof. unfold u16. lia. Qed.

(* case split on the header parse, using Header_unmarshal_total to discharge the Panic and Fuel cases *)
Ltac hdr_cases b h EH :=
  destruct (Header_unmarshal_total b) as [?HNP ?HNF];
  destruct (Header_unmarshal b) as [h| | |] eqn:EH; cbn [bind]; [ | not_panic | congruence | congruence].

(* ---------- NACK ---------- *)
Lemma nack_read_total raw stop : stop <= len raw -> stop mod 4 = 0 ->
  forall fuel i, i mod 4 = 0 -> stop - i < N.of_nat fuel ->
  nack_read fuel raw i stop <> Panic /\ nack_read fuel raw i stop <> Fuel.
Proof.
  intros Hs Hs4. induction fuel as [|f IH]; intros i Hi Hf; [lia|].
  cbn [nack_read]. destruct (N.ltb_spec i stop) as [Hlt|Hge]; [|not_panic].
  rewrite !get_be_at_ok by lia. cbn [bind].
  destruct (IH (i + 4)) as [IH1 IH2]; [lia|lia|].
  destruct (nack_read f raw (i + 4) stop); cbn [bind]; try congruence; not_panic.
Qed.

Lemma nack_read_count raw stop : stop mod 4 = 0 ->
  forall fuel i r, i mod 4 = 0 -> nack_read fuel raw i stop = Ok r -> 4 * nlen r <= stop - i.
Proof.
  intros Hs4. induction fuel as [|f IH]; intros i r Hi E; [discriminate|].
  cbn [nack_read] in E. destruct (N.ltb_spec i stop) as [Hlt|Hge].
  - destruct (get_be_at 2 raw i); cbn [bind] in E; try discriminate.
    destruct (get_be_at 2 raw (i + 2)); cbn [bind] in E; try discriminate.
    destruct (nack_read f raw (i + 4) stop) as [r'| | |] eqn:Er; cbn [bind] in E; try discriminate.
    injection E as <-. apply IH in Er; [|lia]. unfold nlen in *. cbn [length]. lia.
  - injection E as <-. unfold nlen. cbn [length]. lia.
Qed.

Lemma NACK_unmarshal_total b : NACK_unmarshal b <> Panic /\ NACK_unmarshal b <> Fuel.
Proof.
  unfold NACK_unmarshal. consts.
  destruct (N.ltb_spec (len b) (4 + 4)) as [|Hl]; [not_panic|].
  hdr_cases b h EH.
  pose proof (u16_4x_mod4 (h_len h)) as Hm. pose proof (u16_lt (4 * h_len h)) as Hlt.
  set (l4 := u16 (4 * h_len h)) in *.
  destruct (N.ltb_spec (len b) (4 + l4)) as [|Hl4]; [not_panic|].
  destruct (_ || _); [not_panic|].
  destruct (N.leb_spec l4 8) as [|Hoff]; [not_panic|].
  rewrite !get_be_at_ok by (cbn [N.of_nat Pos.of_succ_nat Pos.succ]; lia). cbn [bind].
  destruct (nack_read_total b (4 + l4) Hl4 ltac:(lia) (S (length b)) (4 + 8) ltac:(lia)) as [L1 L2].
  { unfold len in *. lia. }
  destruct (nack_read (S (length b)) b (4 + 8) (4 + l4)); cbn [bind]; try congruence; not_panic.
Qed.

Lemma NACK_unmarshal_alloc b p : NACK_unmarshal b = Ok p -> 4 * nlen (nack_pairs p) <= len b.
Proof.
  unfold NACK_unmarshal. consts.
  destruct (N.ltb_spec (len b) (4 + 4)) as [|Hl]; [discriminate|].
  destruct (Header_unmarshal b) as [h| | |]; cbn [bind]; try discriminate.
  pose proof (u16_4x_mod4 (h_len h)) as Hm.
  set (l4 := u16 (4 * h_len h)) in *.
  destruct (N.ltb_spec (len b) (4 + l4)) as [|Hl4]; [discriminate|].
  destruct (_ || _); [discriminate|].
  destruct (N.leb_spec l4 8) as [|Hoff]; [discriminate|].
  destruct (get_be_at 4 b 4); cbn [bind]; try discriminate.
  destruct (get_be_at 4 b (4 + 4)); cbn [bind]; try discriminate.
  destruct (nack_read (S (length b)) b (4 + 8) (4 + l4)) as [r| | |] eqn:Er; cbn [bind]; try discriminate.
  intros E. injection E as <-. cbn [nack_pairs].
  apply nack_read_count in Er; lia.
Qed.

(* ---------- PLI / RRR ---------- *)
Lemma PLI_unmarshal_total b : PLI_unmarshal b <> Panic /\ PLI_unmarshal b <> Fuel.
Proof.
  unfold PLI_unmarshal. consts.
  destruct (N.ltb_spec (len b) (4 + 4 * 2)) as [|Hl]; [not_panic|].
  hdr_cases b h EH.
  destruct (_ || _); [not_panic|].
  rewrite !get_be_at_ok by (cbn [N.of_nat Pos.of_succ_nat Pos.succ]; lia). cbn [bind]. not_panic.
Qed.

Lemma RRR_unmarshal_total b : RRR_unmarshal b <> Panic /\ RRR_unmarshal b <> Fuel.
Proof.
  unfold RRR_unmarshal. consts.
  destruct (N.ltb_spec (len b) (4 + 4 * 2)) as [|Hl]; [not_panic|].
  hdr_cases b h EH.
  destruct (_ || _); [not_panic|].
  rewrite !get_be_at_ok by (cbn [N.of_nat Pos.of_succ_nat Pos.succ]; lia). cbn [bind]. not_panic.
Qed.

(* ---------- SLI ---------- *)
Lemma sli_read_total raw stop : stop <= len raw -> stop mod 4 = 0 ->
  forall fuel i, i mod 4 = 0 -> stop - i < N.of_nat fuel ->
  sli_read fuel raw i stop <> Panic /\ sli_read fuel raw i stop <> Fuel.
Proof.
  intros Hs Hs4. induction fuel as [|f IH]; intros i Hi Hf; [lia|].
  cbn [sli_read]. destruct (N.ltb_spec i stop) as [Hlt|Hge]; [|not_panic].
  rewrite !get_be_at_ok by lia. cbn [bind].
  destruct (IH (i + 4)) as [IH1 IH2]; [lia|lia|].
  destruct (sli_read f raw (i + 4) stop); cbn [bind]; try congruence; not_panic.
Qed.

Lemma sli_read_count raw stop : stop mod 4 = 0 ->
  forall fuel i r, i mod 4 = 0 -> sli_read fuel raw i stop = Ok r -> 4 * nlen r <= stop - i.
Proof.
  intros Hs4. induction fuel as [|f IH]; intros i r Hi E; [discriminate|].
  cbn [sli_read] in E. destruct (N.ltb_spec i stop) as [Hlt|Hge].
  - destruct (get_be_at 4 raw i); cbn [bind] in E; try discriminate.
    destruct (sli_read f raw (i + 4) stop) as [r'| | |] eqn:Er; cbn [bind] in E; try discriminate.
    injection E as <-. apply IH in Er; [|lia]. unfold nlen in *. cbn [length]. lia.
  - injection E as <-. unfold nlen. cbn [length]. lia.
Qed.

Lemma SLI_unmarshal_total b : SLI_unmarshal b <> Panic /\ SLI_unmarshal b <> Fuel.
Proof.
  unfold SLI_unmarshal. consts.
  destruct (N.ltb_spec (len b) (4 + 8)) as [|Hl]; [not_panic|].
  hdr_cases b h EH.
  pose proof (u16_4x_mod4 (h_len h)) as Hm.
  set (l4 := u16 (4 * h_len h)) in *.
  destruct (N.ltb_spec (len b) (4 + l4)) as [|Hl4]; [not_panic|].
  destruct (_ || _); [not_panic|].
  rewrite !get_be_at_ok by (cbn [N.of_nat Pos.of_succ_nat Pos.succ]; lia). cbn [bind].
  destruct (sli_read_total b (4 + l4) Hl4 ltac:(lia) (S (length b)) (4 + 8) ltac:(lia)) as [L1 L2].
  { unfold len in *. lia. }
  destruct (sli_read (S (length b)) b (4 + 8) (4 + l4)); cbn [bind]; try congruence; not_panic.
Qed.

Lemma SLI_unmarshal_alloc b p : SLI_unmarshal b = Ok p -> 4 * nlen (sli_entries p) <= len b.
Proof.
  unfold SLI_unmarshal. consts.
  destruct (N.ltb_spec (len b) (4 + 8)) as [|Hl]; [discriminate|].
  destruct (Header_unmarshal b) as [h| | |]; cbn [bind]; try discriminate.
  pose proof (u16_4x_mod4 (h_len h)) as Hm.
  set (l4 := u16 (4 * h_len h)) in *.
  destruct (N.ltb_spec (len b) (4 + l4)) as [|Hl4]; [discriminate|].
  destruct (_ || _); [discriminate|].
  destruct (get_be_at 4 b 4); cbn [bind]; try discriminate.
  destruct (get_be_at 4 b (4 + 4)); cbn [bind]; try discriminate.
  destruct (sli_read (S (length b)) b (4 + 8) (4 + l4)) as [r| | |] eqn:Er; cbn [bind]; try discriminate.
  intros E. injection E as <-. cbn [sli_entries].
  apply sli_read_count in Er; lia.
Qed.

(* ---------- FIR ---------- *)
Lemma fir_read_total raw stop : stop <= len raw -> stop mod 8 = 4 ->
  forall fuel i, i mod 8 = 4 -> stop - i < N.of_nat fuel ->
  fir_read fuel raw i stop <> Panic /\ fir_read fuel raw i stop <> Fuel.
Proof.
  intros Hs Hs8. induction fuel as [|f IH]; intros i Hi Hf; [lia|].
  cbn [fir_read]. destruct (N.ltb_spec i stop) as [Hlt|Hge]; [|not_panic].
  rewrite get_be_at_ok by lia. cbn [bind]. rewrite idx_ok by lia. cbn [bind].
  destruct (IH (i + 8)) as [IH1 IH2]; [lia|lia|].
  destruct (fir_read f raw (i + 8) stop); cbn [bind]; try congruence; not_panic.
Qed.

Lemma fir_read_count raw stop : stop mod 8 = 4 ->
  forall fuel i r, i mod 8 = 4 -> fir_read fuel raw i stop = Ok r -> 8 * nlen r <= stop - i.
Proof.
  intros Hs8. induction fuel as [|f IH]; intros i r Hi E; [discriminate|].
  cbn [fir_read] in E. destruct (N.ltb_spec i stop) as [Hlt|Hge].
  - destruct (get_be_at 4 raw i); cbn [bind] in E; try discriminate.
    destruct (idx raw (i + 4)); cbn [bind] in E; try discriminate.
    destruct (fir_read f raw (i + 8) stop) as [r'| | |] eqn:Er; cbn [bind] in E; try discriminate.
    injection E as <-. apply IH in Er; [|lia]. unfold nlen in *. cbn [length]. lia.
  - injection E as <-. unfold nlen. cbn [length]. lia.
Qed.

Lemma FIR_unmarshal_total b : FIR_unmarshal b <> Panic /\ FIR_unmarshal b <> Fuel.
Proof.
  unfold FIR_unmarshal. consts.
  destruct (N.ltb_spec (len b) (4 + 8)) as [|Hl]; [not_panic|].
  hdr_cases b h EH.
  set (l4 := u16 (4 * h_len h)) in *.
  destruct (N.ltb_spec (len b) (4 + l4)) as [|Hl4]; [not_panic|].
  destruct (_ || _); [not_panic|].
  destruct (sub16 l4 8 <=? 0); cbn [orb]; [not_panic|].
  destruct (N.eqb_spec (l4 mod 8) 0) as [Hm|]; cbn [negb]; [|not_panic].
  rewrite !get_be_at_ok by (cbn [N.of_nat Pos.of_succ_nat Pos.succ]; lia). cbn [bind].
  destruct (fir_read_total b (4 + l4) Hl4 ltac:(lia) (S (length b)) (4 + 8) ltac:(lia)) as [L1 L2].
  { unfold len in *. lia. }
  destruct (fir_read (S (length b)) b (4 + 8) (4 + l4)); cbn [bind]; try congruence; not_panic.
Qed.

Lemma FIR_unmarshal_alloc b p : FIR_unmarshal b = Ok p -> 8 * nlen (fir_entries p) <= len b.
Proof.
  unfold FIR_unmarshal. consts.
  destruct (N.ltb_spec (len b) (4 + 8)) as [|Hl]; [discriminate|].
  destruct (Header_unmarshal b) as [h| | |]; cbn [bind]; try discriminate.
  set (l4 := u16 (4 * h_len h)) in *.
  destruct (N.ltb_spec (len b) (4 + l4)) as [|Hl4]; [discriminate|].
  destruct (_ || _); [discriminate|].
  destruct (sub16 l4 8 <=? 0); cbn [orb]; [discriminate|].
  destruct (N.eqb_spec (l4 mod 8) 0) as [Hm|]; cbn [negb]; [|discriminate].
  destruct (get_be_at 4 b 4); cbn [bind]; try discriminate.
  destruct (get_be_at 4 b (4 + 4)); cbn [bind]; try discriminate.
  destruct (fir_read (S (length b)) b (4 + 8) (4 + l4)) as [r| | |] eqn:Er; cbn [bind]; try discriminate.
  intros E. injection E as <-. cbn [fir_entries].
  apply fir_read_count in Er; lia.
Qed.

(* ---------- REMB ---------- *)
Lemma remb_ssrcs_read_total raw size : size <= len raw -> size mod 4 = 0 ->
  forall fuel n, n mod 4 = 0 -> size - n < N.of_nat fuel ->
  remb_ssrcs_read fuel raw n size <> Panic /\ remb_ssrcs_read fuel raw n size <> Fuel.
Proof.
  intros Hs Hs4. induction fuel as [|f IH]; intros n Hn Hf; [lia|].
  cbn [remb_ssrcs_read]. destruct (N.ltb_spec n size) as [Hlt|Hge]; [|not_panic].
  rewrite slice_ok by lia. cbn [bind].
  rewrite get_be_at_ok by (rewrite len_firstn, len_skipn; lia). cbn [bind].
  destruct (IH (n + 4)) as [IH1 IH2]; [lia|lia|].
  destruct (remb_ssrcs_read f raw (n + 4) size); cbn [bind]; try congruence; not_panic.
Qed.

Lemma remb_ssrcs_read_count raw size : size mod 4 = 0 ->
  forall fuel n r, n mod 4 = 0 -> remb_ssrcs_read fuel raw n size = Ok r -> 4 * nlen r <= size - n.
Proof.
  intros Hs4. induction fuel as [|f IH]; intros n r Hn E; [discriminate|].
  cbn [remb_ssrcs_read] in E. destruct (N.ltb_spec n size) as [Hlt|Hge].
  - destruct (slice raw n (n + 4)) as [sb| | |]; cbn [bind] in E; try discriminate.
    destruct (get_be_at 4 sb 0); cbn [bind] in E; try discriminate.
    destruct (remb_ssrcs_read f raw (n + 4) size) as [r'| | |] eqn:Er; cbn [bind] in E; try discriminate.
    injection E as <-. apply IH in Er; [|lia]. unfold nlen in *. cbn [length]. lia.
  - injection E as <-. unfold nlen. cbn [length]. lia.
Qed.

Lemma remb_size_mod4 x : u16 (u16 (x + 1) * 4) mod 4 = 0.
Proof. unfold u16. lia. Qed.

Lemma REMB_unmarshal_total b : REMB_unmarshal b <> Panic /\ REMB_unmarshal b <> Fuel.
Proof.
  unfold REMB_unmarshal.
  destruct (N.ltb_spec (len b) 20) as [|Hl]; [not_panic|].
  rewrite (idx_ok b 0) by lia. cbn [bind].
  destruct (negb _); [not_panic|]. destruct (negb _); [not_panic|]. destruct (negb _); [not_panic|].
  rewrite (idx_ok b 1) by lia. cbn [bind].
  destruct (negb _); [not_panic|].
  rewrite (get_be_at_ok 2 b 2) by (cbn [N.of_nat Pos.of_succ_nat Pos.succ]; lia). cbn [bind].
  set (lf := unbe _). pose proof (remb_size_mod4 lf) as Hm.
  set (size := u16 (u16 (lf + 1) * 4)) in *.
  destruct (N.ltb_spec size 20) as [|Hs20]; [not_panic|].
  destruct (N.ltb_spec (len b) size) as [|Hsz]; [not_panic|].
  rewrite (get_be_at_ok 4 b 4), (get_be_at_ok 4 b 8) by (cbn [N.of_nat Pos.of_succ_nat Pos.succ]; lia). cbn [bind].
  destruct (negb _); [not_panic|].
  rewrite (slice_ok b 12 16) by lia. cbn [bind].
  destruct (negb _); [not_panic|].
  rewrite (idx_ok b 16) by lia. cbn [bind].
  destruct (negb _); [not_panic|].
  rewrite (idx_ok b 17), (idx_ok b 18), (idx_ok b 19) by lia. cbn [bind].
  destruct (remb_ssrcs_read_total b size Hsz Hm (S (length b)) 20 ltac:(lia)) as [L1 L2].
  { unfold len in *. lia. }
  destruct (remb_ssrcs_read (S (length b)) b 20 size); cbn [bind]; try congruence; not_panic.
Qed.

Lemma REMB_unmarshal_alloc b p : REMB_unmarshal b = Ok p -> 4 * nlen (remb_ssrcs p) <= len b.
Proof.
  unfold REMB_unmarshal.
  destruct (N.ltb_spec (len b) 20) as [|Hl]; [discriminate|].
  destruct (idx b 0); cbn [bind]; try discriminate.
  destruct (negb _); [discriminate|]. destruct (negb _); [discriminate|]. destruct (negb _); [discriminate|].
  destruct (idx b 1); cbn [bind]; try discriminate.
  destruct (negb _); [discriminate|].
  destruct (get_be_at 2 b 2) as [lf| | |]; cbn [bind]; try discriminate.
  pose proof (remb_size_mod4 lf) as Hm.
  set (size := u16 (u16 (lf + 1) * 4)) in *.
  destruct (N.ltb_spec size 20) as [|Hs20]; [discriminate|].
  destruct (N.ltb_spec (len b) size) as [|Hsz]; [discriminate|].
  destruct (get_be_at 4 b 4); cbn [bind]; try discriminate.
  destruct (get_be_at 4 b 8); cbn [bind]; try discriminate.
  destruct (negb _); [discriminate|].
  destruct (slice b 12 16); cbn [bind]; try discriminate.
  destruct (negb _); [discriminate|].
  destruct (idx b 16); cbn [bind]; try discriminate.
  destruct (negb _); [discriminate|].
  destruct (idx b 17); cbn [bind]; try discriminate.
  destruct (idx b 18); cbn [bind]; try discriminate.
  destruct (idx b 19); cbn [bind]; try discriminate.
  destruct (remb_ssrcs_read (S (length b)) b 20 size) as [r| | |] eqn:Er; cbn [bind]; try discriminate.
  intros E. injection E as <-. cbn [remb_ssrcs].
  apply remb_ssrcs_read_count in Er; lia.
Qed.

(* ---------- RawPacket ---------- *)
Lemma Raw_unmarshal_total b : Raw_unmarshal b <> Panic /\ Raw_unmarshal b <> Fuel.
Proof.
  unfold Raw_unmarshal. destruct (len b <? c_headerLength); [not_panic|].
  hdr_cases b h EH. not_panic.
Qed.

(* ---------- TWCC chunk and delta codecs ---------- *)
Lemma RLC_unmarshal_total b : RLC_unmarshal b <> Panic /\ RLC_unmarshal b <> Fuel.
Proof.
  unfold RLC_unmarshal. consts. destruct (N.eqb_spec (len b) 2) as [Hl|]; cbn [negb]; [|not_panic].
  rewrite !idx_ok by lia. cbn [bind]. not_panic.
Qed.

Lemma SVC_unmarshal_total b : SVC_unmarshal b <> Panic /\ SVC_unmarshal b <> Fuel.
Proof.
  unfold SVC_unmarshal. consts. destruct (N.eqb_spec (len b) 2) as [Hl|]; cbn [negb]; [|not_panic].
  rewrite !idx_ok by lia. cbn [bind]. not_panic.
Qed.

Lemma RecvDelta_unmarshal_total b : RecvDelta_unmarshal b <> Panic /\ RecvDelta_unmarshal b <> Fuel.
Proof.
  unfold RecvDelta_unmarshal. cbv zeta.
  destruct (N.eqb_spec (len b) 1) as [H1|H1]; cbn [negb andb].
  - rewrite idx_ok by lia. cbn [bind]. not_panic.
  - destruct (N.eqb_spec (len b) 2) as [H2|H2]; cbn [negb]; [|not_panic].
    rewrite get_be_at_ok by (cbn [N.of_nat Pos.of_succ_nat Pos.succ]; lia). cbn [bind]. not_panic.
Qed.

(* ---------- CCFB ---------- *)
Lemma CCMetric_unmarshal_total b : CCMetric_unmarshal b <> Panic /\ CCMetric_unmarshal b <> Fuel.
Proof.
  unfold CCMetric_unmarshal. consts. destruct (N.eqb_spec (len b) 2) as [Hl|]; cbn [negb]; [|not_panic].
  rewrite idx_ok by lia. cbn [bind].
  destruct (negb (negb _)); [not_panic|].
  rewrite get_be_at_ok by (cbn [N.of_nat Pos.of_succ_nat Pos.succ]; lia). cbn [bind]. not_panic.
Qed.

(* the metric reader stays inside a window whose length was checked *)
Lemma get_metrics_total : forall k rest, (2 * k <= length rest)%nat ->
  get_metrics k rest <> Panic /\ get_metrics k rest <> Fuel.
Proof.
  induction k as [|k IH]; intros rest Hk; cbn [get_metrics]; [not_panic|].
  destruct rest as [|b0 [|b1 rest']]; cbn [length] in Hk; [lia|lia|].
  destruct (CCMetric_unmarshal_total [b0; b1]) as [M1 M2].
  destruct (CCMetric_unmarshal [b0; b1]); cbn [bind]; try congruence; [|not_panic].
  destruct (IH rest') as [I1 I2]; [lia|].
  destruct (get_metrics k rest'); cbn [bind]; try congruence; not_panic.
Qed.

Lemma get_metrics_count : forall k rest ms, get_metrics k rest = Ok ms -> length ms = k.
Proof.
  induction k as [|k IH]; intros rest ms E; cbn [get_metrics] in E.
  - injection E as <-. reflexivity.
  - destruct rest as [|b0 [|b1 rest']]; try discriminate.
    destruct (CCMetric_unmarshal [b0; b1]); cbn [bind] in E; try discriminate.
    destruct (get_metrics k rest') as [r| | |] eqn:Er; cbn [bind] in E; try discriminate.
    injection E as <-. cbn [length]. f_equal. eapply IH. exact Er.
Qed.

Lemma CCBlock_unmarshal_total b : CCBlock_unmarshal b <> Panic /\ CCBlock_unmarshal b <> Fuel.
Proof.
  unfold CCBlock_unmarshal. consts.
  destruct (N.ltb_spec (len b) 8) as [|Hl]; [not_panic|].
  rewrite !get_be_at_ok by (cbn [N.of_nat Pos.of_succ_nat Pos.succ]; lia). cbn [bind].
  set (bs := unbe (firstn 2 (skipn (N.to_nat 4) b))). set (nrf := unbe (firstn 2 (skipn (N.to_nat 6) b))).
  destruct (nrf =? 0); [not_panic|].
  destruct (65535 <? bs + nrf); [not_panic|].
  set (nr := u16 (u16 (sub16 (u16 (bs + nrf)) bs) + 1)).
  destruct (N.ltb_spec (len b) (8 + nr * 2)) as [|Hn]; [not_panic|].
  destruct (get_metrics_total (N.to_nat nr) (skipn (N.to_nat 8) b)) as [G1 G2].
  { rewrite skipn_length. unfold len in Hn. lia. }
  destruct (get_metrics (N.to_nat nr) (skipn (N.to_nat 8) b)); cbn [bind]; try congruence; not_panic.
Qed.

(* a decoded block was read entirely from its input: header and all metric blocks *)
Lemma CCBlock_unmarshal_alloc b blk : CCBlock_unmarshal b = Ok blk -> 8 + 2 * nlen (cb_metrics blk) <= len b.
Proof.
  unfold CCBlock_unmarshal. consts.
  destruct (N.ltb_spec (len b) 8) as [|Hl]; [discriminate|].
  destruct (get_be_at 4 b 0); cbn [bind]; try discriminate.
  destruct (get_be_at 2 b 4) as [bs| | |]; cbn [bind]; try discriminate.
  destruct (get_be_at 2 b 6) as [nrf| | |]; cbn [bind]; try discriminate.
  destruct (nrf =? 0).
  { intros E. injection E as <-. unfold nlen. cbn [cb_metrics length]. lia. }
  destruct (65535 <? bs + nrf); [discriminate|].
  set (nr := u16 (u16 (sub16 (u16 (bs + nrf)) bs) + 1)).
  destruct (N.ltb_spec (len b) (8 + nr * 2)) as [|Hn]; [discriminate|].
  destruct (get_metrics (N.to_nat nr) (skipn (N.to_nat 8) b)) as [ms| | |] eqn:Em; cbn [bind]; try discriminate.
  intros E. injection E as <-. cbn [cb_metrics]. apply get_metrics_count in Em. unfold nlen. lia.
Qed.

Lemma CCBlock_len_ge b : 8 + 2 * nlen (cb_metrics b) <= CCBlock_len b.
Proof. unfold CCBlock_len. consts. cbv zeta. destruct (negb _); lia. Qed.

Lemma blocks_loop_total raw stop : stop <= len raw ->
  forall fuel off, stop - off < N.of_nat fuel ->
  blocks_loop fuel raw off stop <> Panic /\ blocks_loop fuel raw off stop <> Fuel.
Proof.
  intros Hs. induction fuel as [|f IH]; intros off Hf; [lia|].
  cbn [blocks_loop]. destruct (N.ltb_spec off stop) as [Hlt|Hge]; [|not_panic].
  rewrite slice_from_ok by lia. cbn [bind].
  destruct (CCBlock_unmarshal_total (skipn (N.to_nat off) raw)) as [B1 B2].
  destruct (CCBlock_unmarshal (skipn (N.to_nat off) raw)) as [blk| | |]; cbn [bind]; try congruence; [|not_panic].
  pose proof (CCBlock_len_ge blk) as Hge.
  destruct (IH (off + CCBlock_len blk)) as [I1 I2]; [lia|].
  destruct (blocks_loop f raw (off + CCBlock_len blk) stop); cbn [bind]; try congruence; not_panic.
Qed.

Definition metric_count (bs : list CCBlock) : N := fold_right (fun b acc => nlen (cb_metrics b) + acc) 0 bs.

Lemma blocks_loop_count raw stop : stop <= len raw ->
  forall fuel off bs, blocks_loop fuel raw off stop = Ok bs ->
  8 * nlen bs + 2 * metric_count bs <= len raw - off.
Proof.
  intros Hs. induction fuel as [|f IH]; intros off bs E; [discriminate|].
  cbn [blocks_loop] in E. destruct (N.ltb_spec off stop) as [Hlt|Hge].
  - rewrite slice_from_ok in E by lia. cbn [bind] in E.
    destruct (CCBlock_unmarshal (skipn (N.to_nat off) raw)) as [blk| | |] eqn:Eb; cbn [bind] in E; try discriminate.
    destruct (blocks_loop f raw (off + CCBlock_len blk) stop) as [r| | |] eqn:Er; cbn [bind] in E; try discriminate.
    injection E as <-. apply IH in Er. apply CCBlock_unmarshal_alloc in Eb. rewrite len_skipn in Eb.
    pose proof (CCBlock_len_ge blk) as Hge.
    unfold nlen in *. cbn [metric_count fold_right length]. fold (metric_count r). unfold nlen. lia.
  - injection E as <-. unfold nlen. cbn [metric_count fold_right length]. lia.
Qed.

Lemma CCFB_unmarshal_total b : CCFB_unmarshal b <> Panic /\ CCFB_unmarshal b <> Fuel.
Proof.
  unfold CCFB_unmarshal. consts.
  destruct (N.ltb_spec (len b) (4 + 4 + 4)) as [|Hl]; [not_panic|].
  hdr_cases b h EH.
  destruct (negb _); [not_panic|].
  rewrite !get_be_at_ok by (cbn [N.of_nat Pos.of_succ_nat Pos.succ]; lia). cbn [bind].
  destruct (blocks_loop_total b (len b - 4) ltac:(lia) (S (length b)) 8) as [L1 L2].
  { unfold len in *. lia. }
  destruct (blocks_loop (S (length b)) b 8 (len b - 4)); cbn [bind]; try congruence; not_panic.
Qed.

(* every decoded report block costs at least 8 input octets and every metric block 2 *)
Lemma CCFB_unmarshal_alloc b p : CCFB_unmarshal b = Ok p ->
  8 * nlen (cc_blocks p) + 2 * metric_count (cc_blocks p) <= len b.
Proof.
  unfold CCFB_unmarshal. consts.
  destruct (N.ltb_spec (len b) (4 + 4 + 4)) as [|Hl]; [discriminate|].
  destruct (Header_unmarshal b) as [h| | |]; cbn [bind]; try discriminate.
  destruct (negb _); [discriminate|].
  destruct (get_be_at 4 b 4); cbn [bind]; try discriminate.
  destruct (get_be_at 4 b (len b - 4)); cbn [bind]; try discriminate.
  destruct (blocks_loop (S (length b)) b 8 (len b - 4)) as [bs| | |] eqn:Eb; cbn [bind]; try discriminate.
  intros E. injection E as <-. cbn [cc_blocks]. apply blocks_loop_count in Eb; lia.
Qed.

(* ---------- the allocation facts over nat lengths ---------- *)
Lemma NACK_unmarshal_alloc_nat b p : NACK_unmarshal b = Ok p -> (4 * length (nack_pairs p) <= length b)%nat.
Proof. intros H. apply NACK_unmarshal_alloc in H. unfold nlen, len in H. lia. Qed.
Lemma SLI_unmarshal_alloc_nat b p : SLI_unmarshal b = Ok p -> (4 * length (sli_entries p) <= length b)%nat.
Proof. intros H. apply SLI_unmarshal_alloc in H. unfold nlen, len in H. lia. Qed.
Lemma FIR_unmarshal_alloc_nat b p : FIR_unmarshal b = Ok p -> (8 * length (fir_entries p) <= length b)%nat.
Proof. intros H. apply FIR_unmarshal_alloc in H. unfold nlen, len in H. lia. Qed.
Lemma REMB_unmarshal_alloc_nat b p : REMB_unmarshal b = Ok p -> (4 * length (remb_ssrcs p) <= length b)%nat.
Proof. intros H. apply REMB_unmarshal_alloc in H. unfold nlen, len in H. lia. Qed.
Lemma CCFB_unmarshal_alloc_nat b p : CCFB_unmarshal b = Ok p ->
  (8 * length (cc_blocks p) + 2 * N.to_nat (metric_count (cc_blocks p)) <= length b)%nat.
Proof. intros H. apply CCFB_unmarshal_alloc in H. unfold nlen, len in H. lia. Qed.

Print Assumptions NACK_unmarshal_total.
Print Assumptions NACK_unmarshal_alloc.
Print Assumptions PLI_unmarshal_total.
Print Assumptions RRR_unmarshal_total.
Print Assumptions SLI_unmarshal_total.
Print Assumptions SLI_unmarshal_alloc.
Print Assumptions FIR_unmarshal_total.
Print Assumptions FIR_unmarshal_alloc.
Print Assumptions REMB_unmarshal_total.
Print Assumptions REMB_unmarshal_alloc.
Print Assumptions Raw_unmarshal_total.
Print Assumptions RLC_unmarshal_total.
Print Assumptions SVC_unmarshal_total.
Print Assumptions RecvDelta_unmarshal_total.
Print Assumptions CCMetric_unmarshal_total.
Print Assumptions CCBlock_unmarshal_total.
Print Assumptions CCBlock_unmarshal_alloc.
Print Assumptions CCFB_unmarshal_total.
Print Assumptions CCFB_unmarshal_alloc.
Print Assumptions NACK_unmarshal_alloc_nat.
Print Assumptions SLI_unmarshal_alloc_nat.
Print Assumptions FIR_unmarshal_alloc_nat.
Print Assumptions REMB_unmarshal_alloc_nat.
Print Assumptions CCFB_unmarshal_alloc_nat.
