(* The function-valued oracles of Gen/FuncsXr.v (module GoSrcXr), instantiated with the reflection model, and the
   conversion from the model's generic XR values to the generated records.  Definitions only (no proofs), so that the
   extracted runner does not depend on any proof file: Check/SrcCheck.v runs GoSrcXr.ExtendedReport_Unmarshal with these
   oracles on every case; Proofs/SourceXrCodec.v proves that instantiation equal to the model's XR_unmarshal. *)
From Coq Require Import List NArith ZArith Bool.
From Coq.Strings Require Import Byte.
From RTCP Require Import Lib.Base Lib.GoSem Lib.Reflect Gen.Layouts Gen.FuncsXr Model.Header Model.Xr.
Import ListNotations.
Local Open Scope Z_scope.

Module X := GoSrcXr.

(* 1b. model -> record.  Total, by positional access with zero defaults: on the values [read] produces at the layout of
   the kind (and on every xblk_T image of a record with non-negative fields) it is the exact inverse of 1a
   (xblk_of_src_xrblock below); elsewhere the defaults make it total. *)
Definition zv (v : val) : Z := match v with VU n => Z.of_N n | _ => 0 end.
Definition bv (v : val) : bool := match v with VU n => negb (n =? 0)%N | _ => false end.
Definition fld (v : val) (i : nat) : val := match v with VStruct vs => nth i vs (VU 0%N) | _ => VU 0%N end.
Definition zlist (v : val) : list Z := match v with VSlice l => map zv l | _ => [] end.
Definition blist (v : val) : bytes := match v with VSlice l => map (fun x => n2b (Z.to_N (zv x))) l | _ => [] end.
Definition hdr_of (v : val) : X.XRHeader := X.mkXRHeader (zv (fld v 0)) (zv (fld v 1)) (zv (fld v 2)).
Definition dlrr_of (v : val) : X.DLRRReport := X.mkDLRRReport (zv (fld v 0)) (zv (fld v 1)) (zv (fld v 2)).
Definition dlrrs_of (v : val) : list X.DLRRReport := match v with VSlice l => map dlrr_of l | _ => [] end.
Definition src_xrblock (b : XRBlock) : X.ReportBlock :=
  let v := xb_val b in
  let z i := zv (fld v i) in
  match xb_kind b with
  | KLossRLE => X.ReportBlock_LossRLEReportBlock (X.mkLossRLEReportBlock (hdr_of (fld v 0)) (z 1%nat) (z 2%nat) (z 3%nat) (z 4%nat) (zlist (fld v 5)))
  | KDupRLE => X.ReportBlock_DuplicateRLEReportBlock (X.mkDuplicateRLEReportBlock (hdr_of (fld v 0)) (z 1%nat) (z 2%nat) (z 3%nat) (z 4%nat) (zlist (fld v 5)))
  | KPRT => X.ReportBlock_PacketReceiptTimesReportBlock (X.mkPacketReceiptTimesReportBlock (hdr_of (fld v 0)) (z 1%nat) (z 2%nat) (z 3%nat) (z 4%nat) (zlist (fld v 5)))
  | KRRT => X.ReportBlock_ReceiverReferenceTimeReportBlock (X.mkReceiverReferenceTimeReportBlock (hdr_of (fld v 0)) (z 1%nat))
  | KDLRR => X.ReportBlock_DLRRReportBlock (X.mkDLRRReportBlock (hdr_of (fld v 0)) (dlrrs_of (fld v 1)))
  | KSS => X.ReportBlock_StatisticsSummaryReportBlock (X.mkStatisticsSummaryReportBlock (hdr_of (fld v 0))
             (bv (fld v 1)) (bv (fld v 2)) (bv (fld v 3)) (z 4%nat) (z 5%nat) (z 6%nat) (z 7%nat) (z 8%nat) (z 9%nat) (z 10%nat)
             (z 11%nat) (z 12%nat) (z 13%nat) (z 14%nat) (z 15%nat) (z 16%nat) (z 17%nat))
  | KVoIP => X.ReportBlock_VoIPMetricsReportBlock (X.mkVoIPMetricsReportBlock (hdr_of (fld v 0))
             (z 1%nat) (z 2%nat) (z 3%nat) (z 4%nat) (z 5%nat) (z 6%nat) (z 7%nat) (z 8%nat) (z 9%nat) (z 10%nat) (z 11%nat) (z 12%nat)
             (z 13%nat) (z 14%nat) (z 15%nat) (z 16%nat) (z 17%nat) (z 18%nat) (z 20%nat) (z 21%nat) (z 22%nat))
  | KUnknown => X.ReportBlock_UnknownReportBlock (X.mkUnknownReportBlock (hdr_of (fld v 0)) (blist (fld v 1)))
  end.
Definition src_xr (x : XR) : X.ExtendedReport :=
  X.mkExtendedReport (Z.of_N (xr_sender x)) (map src_xrblock (xr_blocks x)).
Definition zero_xr : X.ExtendedReport := X.mkExtendedReport 0 [].

(* ================================================================================================ *)
(* 2. the three oracles of GoSrcXr.ExtendedReport_Unmarshal, instantiated with the reflection model  *)
(* ================================================================================================ *)
(* buffer.read(&x.SenderSSRC): Reflect.read at TU32 on the buffer's bytes; the buffer keeps the unread rest *)
Definition m_read_uint32 (pb : X.packetBuffer) (cur : Z) : res (X.packetBuffer * Z) :=
  let* (v, rest) := read TU32 (X.packetBuffer_bytes pb) in Ok (X.mkpacketBuffer rest, zv v).
(* headerBuffer.read(&xrHeader): Reflect.read at the generated layout ly_XRHeader *)
Definition m_read_XRHeader (pb : X.packetBuffer) (cur : X.XRHeader) : res (X.packetBuffer * X.XRHeader) :=
  let* (v, rest) := read ly_XRHeader (X.packetBuffer_bytes pb) in Ok (X.mkpacketBuffer rest, hdr_of v).
(* blockBuffer.read(block): the dynamic type of [block] selects the layout; a nil interface would make reflect panic
   (no call site passes nil) *)
Definition kind_of_rb (r : X.ReportBlock) : option XRKind :=
  match r with
  | X.ReportBlock_LossRLEReportBlock _ => Some KLossRLE
  | X.ReportBlock_DuplicateRLEReportBlock _ => Some KDupRLE
  | X.ReportBlock_PacketReceiptTimesReportBlock _ => Some KPRT
  | X.ReportBlock_ReceiverReferenceTimeReportBlock _ => Some KRRT
  | X.ReportBlock_DLRRReportBlock _ => Some KDLRR
  | X.ReportBlock_StatisticsSummaryReportBlock _ => Some KSS
  | X.ReportBlock_VoIPMetricsReportBlock _ => Some KVoIP
  | X.ReportBlock_UnknownReportBlock _ => Some KUnknown
  | X.ReportBlock_nil => None
  end.
Definition m_read_ReportBlock (pb : X.packetBuffer) (cur : X.ReportBlock) : res (X.packetBuffer * X.ReportBlock) :=
  match kind_of_rb cur with
  | None => Panic
  | Some k => let* (v, rest) := read (layout_of k) (X.packetBuffer_bytes pb) in
              Ok (X.mkpacketBuffer rest, src_xrblock (mkXRBlock k v))
  end.

