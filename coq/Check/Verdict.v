(* Verdicts: for a line (chk <id> <property> <op> <impl-observation>) decide
   (1) whether model and implementation agree on the observables the property talks about and
   (2) whether the property's executable statement holds of the IMPLEMENTATION's observation.
   Answer: (verdict id pass) | (verdict id (diff <what> <model> <impl>)) | (verdict id (fail <sig>...)) *)
From Coq Require Import List NArith ZArith Bool String.
From Coq.Strings Require Import Byte.
From RTCP Require Import Lib.Base Lib.Sval Lib.Reflect
  Model.Header Model.Reports Model.Sdes Model.ByeApp Model.Feedback Model.Twcc Model.Ccfb Model.Remb Model.Xr Model.Packet
  Spec.NackSpec Spec.Enc Spec.XrSpec Spec.Laws Check.Codec Check.Ops Check.SrcCheck.
Import ListNotations.
Local Open Scope string_scope.
Local Open Scope list_scope.
Local Open Scope N_scope.

Definition pass (id : sval) : sval := SL [SY "verdict"; id; SY "pass"].
Definition diff (id : sval) (what : string) (m i : sval) : sval := SL [SY "verdict"; id; SL [SY "diff"; SY what; m; i]].
Definition fail (id : sval) (sig : list sval) : sval := SL [SY "verdict"; id; SL (SY "fail" :: sig)].

(* generic: the whole observation must be equal *)
Definition agree_all (id m i : sval) : option sval :=
  if sval_eqb m i then None else Some (diff id "obs" m i).

(* outcome of a property's executable statement on the implementation's observation *)
Inductive holds := HPass | HTrivial | HFail (sig : list sval).

Definition sigl (l : list string) : list sval := map SY l.

(* ---------------- C12 ---------------- *)
Definition p_pairs (v : sval) : option (list NackPair) := p_list p_pair v.
Definition C12_holds (op impl : sval) : holds :=
  match op with
  | SL [SY o; a] =>
      if String.eqb o "nackpairs" then
        match as_Ns a, p_pairs impl with
        | Some l, Some ps =>
            if forallb (fun p => (np_id p <? 65536) && (np_bm p <? 65536)) ps && same_set (covered ps) l
            then (match l with [] => HTrivial | _ => HPass end)
            else HFail (sigl ["covered_set"])
        | _, _ => HFail (sigl ["malformed_observation"])
        end
      else HTrivial
  | SL [SY o; SN id; SN bm] =>
      if String.eqb o "plist" then
        if sval_eqb impl (sNs (packet_list_spec (mkNackPair id bm))) then HPass else HFail (sigl ["packet_list"])
      else HTrivial
  | SL [SY o; SN id; SN bm; SN k] =>
      if String.eqb o "range" then
        if sval_eqb impl (sNs (firstn (S (N.to_nat k)) (packet_list_spec (mkNackPair id bm)))) then HPass
        else HFail (sigl ["range"])
      else HTrivial
  | _ => HTrivial
  end.
(* agreement for C12: the covered set, not the pair list (starting a new pair where the code sets bit 15 is harmless) *)
Definition C12_agree (id op m i : sval) : option sval :=
  match op with
  | SL [SY o; a] =>
      if String.eqb o "nackpairs" then
        match p_pairs m, p_pairs i with
        | Some pm, Some pi => if same_set (covered pm) (covered pi) then None else Some (diff id "covered_set" m i)
        | _, _ => Some (diff id "obs" m i)
        end
      else agree_all id m i
  | _ => agree_all id m i
  end.

(* ---------------- shared helpers ---------------- *)
Fixpoint forallb2 {A B} (f : A -> B -> bool) (a : list A) (b : list B) : bool :=
  match a, b with [], [] => true | x :: a', y :: b' => f x y && forallb2 f a' b' | _, _ => false end.
Definition assoc (k : string) (obs : sval) : option sval :=
  match obs with
  | SL l => (fix go (l : list sval) : option sval :=
               match l with
               | SL [SY n; v] :: r => if String.eqb n k then Some v else go r
               | _ :: r => go r
               | [] => None
               end) l
  | _ => None
  end.
Definition packet_eqb (a b : packet) : bool := sval_eqb (s_packet (canon a)) (s_packet (canon b)).
Fixpoint packets_eqb (a b : list packet) : bool :=
  match a, b with [], [] => true | x :: a', y :: b' => packet_eqb x y && packets_eqb a' b' | _, _ => false end.
Definition tname (p : packet) : sval := SY (name_of_tag (tag_of_packet p)).
(* failure signature for a packet: its type, and for a compound also the first member type for which [bad] holds *)
Definition tsig (bad : packet -> bool) (p : packet) : list sval :=
  match p with
  | PCompound l => tname p :: match filter bad l with x :: _ => [tname x] | [] => [] end
  | _ => [tname p]
  end.
(* shapes of input that the open findings are about; named in failure signatures so that a finding can be
   matched narrowly (DESIGN.md section 6) *)
Definition reasons1 (p : packet) : list sval :=
  match p with
  | PSLI _ => [SY "sli_pt"]
  | PREMB x => match remb_floor (remb_bitrate x) with Some 0%Z => [SY "mantissa_zero"] | _ => [] end
  | PCCFB x =>
      (if existsb (fun b => nl (cb_metrics b) =? 1) (cc_blocks x) then [SY "one_metric_block"] else [])
      ++ (if existsb (fun b => (0 <? nl (cb_metrics b)) && (65535 <? cb_begin b + nl (cb_metrics b) - 1)) (cc_blocks x) then [SY "range_wraps"] else [])
  | _ => []
  end.
Definition member_suspect (p : packet) : bool := match reasons1 p with [] => false | _ => true end.
Definition reasons (p : packet) : list sval :=
  match p with PCompound l => flat_map reasons1 (firstn 1 (filter member_suspect l)) | _ => reasons1 p end.
Definition ok_packet (v : sval) : option packet := let? x := ok_payload v in p_packet x.
Definition ok_packets (v : sval) : option (list packet) := let? x := ok_payload v in p_packets x.
Definition ok_bytes (v : sval) : option bytes := let? x := ok_payload v in as_B x.
Definition meta_N (k : string) (meta : sval) : N :=
  match meta with SL (SY _ :: l) => match assoc k (SL l) with Some (SN n) => n | _ => 0 end | _ => 0 end.
Definition op_name (op : sval) : string := match op with SL (SY o :: _) => o | _ => "" end.
Definition op_arg1 (op : sval) : sval := match op with SL (_ :: a :: _) => a | _ => SL [] end.
Definition op_arg2 (op : sval) : sval := match op with SL (_ :: _ :: a :: _) => a | _ => SL [] end.
Definition op_arg3 (op : sval) : sval := match op with SL (_ :: _ :: _ :: a :: _) => a | _ => SL [] end.
Definition sym_name (v : sval) : string := match v with SY s => s | _ => "" end.
Definition is_class (c : string) (v : sval) : bool := String.eqb (res_class v) c.

(* ---------------- C01 ---------------- *)
Definition input_len (op : sval) : N :=
  match op with
  | SL [_; SB b] => len b
  | SL [_; _; SB b] => len b
  | _ => 0
  end.
Definition C01_holds (op impl meta : sval) : holds :=
  let who := match op with SL [SY o; SY n; _] => n | SL (SY o :: _) => o | _ => "" end in
  if is_class "panic" impl then HFail [SY "panic"; SY who]
  else if 8388608 + 512 * input_len op <? meta_N "alloc" meta then HFail [SY "alloc"; SY who]
  else if 5000000000 <? meta_N "ns" meta then HFail [SY "time"; SY who]
  else if is_class "ok" impl || is_class "err" impl then HPass
  else HFail [SY "malformed_observation"].
(* what is compared with the model for C01: does the call panic *)
Definition C01_agree (id m i : sval) : option sval :=
  if Bool.eqb (is_class "panic" m || is_class "fuel" m) (is_class "panic" i) then None else Some (diff id "panics" m i).

(* ---------------- C02 ---------------- *)
Definition C02_holds (op impl : sval) : holds :=
  match op with
  | SL [SY o; a] =>
      if String.eqb o "rt" then
        match p_packet a with
        | Some p =>
            if negb (in_D p) then HTrivial else
            let T := tname p in
            match assoc "marshal" impl, assoc "own" impl, assoc "dgram" impl, assoc "remarshal" impl with
            | Some mr, Some own, Some dg, Some re =>
                match ok_bytes mr with
                | None => HFail ([SY "marshal_failed"; T] ++ reasons p)
                | Some b =>
                    match ok_packet own with
                    | None => HFail ([SY "own_decode_failed"; T] ++ reasons p)
                    | Some v =>
                        if negb (packet_eqb v (q p)) then HFail (SY "own_decode_differs" :: tsig member_suspect p ++ reasons p) else
                        let expected := match p with PCompound l => map q l | _ => [q p] end in
                        match ok_packets dg with
                        | None => HFail ([SY "datagram_decode_failed"; T] ++ reasons p)
                        | Some vs =>
                            if negb (forallb2 (fun x y => tag_eqb (tag_of_packet x) (tag_of_packet y)) vs expected)
                            then HFail ([SY "datagram_type_mismatch"; T] ++ reasons p)
                            else if negb (packets_eqb vs expected) then HFail ([SY "datagram_decode_differs"; T] ++ reasons p)
                            else match ok_bytes re with
                                 | Some b' => if bytes_eqb b b' then HPass else HFail ([SY "remarshal_differs"; T] ++ reasons p)
                                 | None => HFail ([SY "remarshal_failed"; T] ++ reasons p)
                                 end
                        end
                    end
                end
            | _, _, _, _ => HFail [SY "malformed_observation"]
            end
        | None => HTrivial
        end
      else if String.eqb o "rts" then
        match p_packets a with
        | Some ps =>
            if negb (forallb in_D ps) || match ps with [] => true | _ => false end then HTrivial else
            match assoc "marshal" impl, assoc "dgram" impl, assoc "remarshal" impl with
            | Some mr, Some dg, Some re =>
                match ok_bytes mr, ok_packets dg, ok_bytes re with
                | Some b, Some vs, Some b' =>
                    let expected := flat_map (fun p => match p with PCompound l => map q l | _ => [q p] end) ps in
                    if negb (packets_eqb vs expected) then HFail (SY "list_decode_differs" :: reasons (PCompound ps))
                    else if bytes_eqb b b' then HPass else HFail [SY "list_remarshal_differs"]
                | None, _, _ => HFail [SY "list_marshal_failed"]
                | _, None, _ => HFail (SY "list_decode_failed" :: reasons (PCompound ps))
                | _, _, None => HFail [SY "list_remarshal_failed"]
                end
            | _, _, _ => HFail [SY "malformed_observation"]
            end
        | None => HTrivial
        end
      else HTrivial
  | _ => HTrivial
  end.

(* ---------------- C03 ---------------- *)
(* APP padding octets other than the last are unspecified: masked out of the comparison *)
Definition app_masked (p : packet) (b : bytes) : bytes :=
  match p with
  | PAPP a => let pl := N.to_nat (app_pad a) in
              if (1 <? pl)%nat then firstn (List.length b - pl) b ++ zeros (N.of_nat (pl - 1)) ++ skipn (List.length b - 1) b else b
  | _ => b
  end.
Definition C03_holds (op impl : sval) : holds :=
  match op with
  | SL [SY o; a] =>
      if String.eqb o "enc" then
        match p_packet a with
        | Some p =>
            if negb (in_D p) then HTrivial else
            match assoc "marshal" impl with
            | Some mr =>
                match ok_bytes mr with
                | Some b => if bytes_eqb (app_masked p b) (app_masked p (enc_spec p)) then HPass
                            else HFail (SY "wire_layout" :: tsig (fun m => negb (sval_eqb (sres SB (marshal_packet m)) (sres SB (Ok (enc_spec m))))) p ++ reasons p)
                | None => HFail [SY "marshal_failed"; tname p]
                end
            | None => HFail [SY "malformed_observation"]
            end
        | None => HTrivial
        end
      else HTrivial
  | _ => HTrivial
  end.

(* ---------------- C04 ---------------- *)
Definition C04_holds (op impl : sval) : holds :=
  match op with
  | SL [SY o; SY n; SB b; ex] =>
      if String.eqb o "variant" then
        match p_packet ex, assoc "own" impl, assoc "dgram" impl with
        | Some e, Some own, Some dg =>
            match ok_packet own with
            | Some v =>
                if negb (packet_eqb v e) then HFail [SY "fields_differ"; SY n] else
                match ok_packets dg with
                | Some [v'] => if packet_eqb v' e then HPass else HFail [SY "datagram_fields_differ"; SY n]
                | _ => HFail [SY "datagram_rejected"; SY n]
                end
            | None => HFail [SY "valid_encoding_rejected"; SY n]
            end
        | _, _, _ => HTrivial
        end
      else HTrivial
  | SL [SY o; SY n; SB b] =>
      (* count-inflated SR/RR/SDES/BYE must be rejected; the generator marks them by raising the count of a valid encoding *)
      HTrivial
  | _ => HTrivial
  end.
(* a header count that claims more elements than the packet holds must be rejected; capacity by size:
   SR (len-28)/24, RR (len-8)/24, BYE (len-4)/4, SDES at most (len-4)/8 chunks (a chunk is at least 8 octets) *)
Definition C04_inflated (op impl : sval) (kind : string) : holds :=
  match op with
  | SL [_; _; SB b] =>
      let count := b2n (nth 0 b x00) mod 32 in
      let n := len b in
      let capacity :=
        if String.eqb kind "SenderReport" then (n - 28) / 24
        else if String.eqb kind "ReceiverReport" then (n - 8) / 24
        else if String.eqb kind "Goodbye" then (n - 4) / 4
        else (n - 4) / 8 in
      if capacity <? count then (if is_class "err" impl then HPass else HFail [SY "inflated_count_accepted"; SY kind]) else HTrivial
  | _ => HTrivial
  end.

(* ---------------- C05 ---------------- *)
Definition C05_holds (op impl : sval) : holds :=
  match op with
  | SL [SY o; a] =>
      if String.eqb o "enc" then
        match p_packet a, assoc "marshal" impl, assoc "size" impl with
        | Some p, Some mr, Some (SN size) =>
            match ok_bytes mr with
            | None => HTrivial
            | Some b =>
                let T := tname p in
                let n := len b in
                let consistent := match p with PTWCC t => twcc_hdr_consistent t | PRaw r => D_Raw r | PCompound l => forallb (fun q => match q with PTWCC t => twcc_hdr_consistent t | PRaw r => D_Raw r | _ => true end) l | _ => true end in
                if negb consistent then HTrivial else
                if negb (n =? size) then HFail [SY "length_ne_marshalsize"; T] else
                match p with
                | PCompound _ => if n mod 4 =? 0 then HPass else HFail [SY "unaligned"; T]
                | _ =>
                    if negb (n mod 4 =? 0) then HFail [SY "unaligned"; T] else
                    if 65536 <=? n / 4 - 1 then HTrivial else
                    match Header_unmarshal (firstn 4 b) with
                    | Ok h =>
                        if negb (h_len h =? n / 4 - 1) then HFail [SY "length_field"; T] else
                        match expected_pt_count p with
                        | Some (pt, c) =>
                            if negb ((h_type h =? pt) && (h_count h =? c)) then HFail [SY "header_type_count"; T] else
                            match assoc "hdr" impl with
                            | Some hv => match p_header hv with
                                         | Some h' => if (h_type h' =? h_type h) && (h_count h' =? h_count h) && (h_len h' =? h_len h) && Bool.eqb (h_pad h') (h_pad h)
                                                      then HPass else HFail [SY "header_accessor"; T]
                                         | None => HPass
                                         end
                            | None => HPass
                            end
                        | None => HPass
                        end
                    | _ => HFail [SY "header_unparsable"; T]
                    end
                end
            end
        | _, _, _ => HTrivial
        end
      else HTrivial
  | _ => HTrivial
  end.

(* ---------------- C06 ---------------- *)
Definition C06_holds (op impl : sval) : holds :=
  match op with
  | SL [SY o; a] =>
      if String.eqb o "split" then
        match p_bytes_list a, assoc "whole" impl, assoc "parts" impl with
        | Some fs, Some w, Some (SL parts) =>
            let whole_bytes := List.concat fs in
            let all_ok := forallb (is_class "ok") parts && negb (match parts with [] => true | _ => false end) in
            if all_ok then
              (* the implementation accepts every part: each must be a datagram the per-frame decoder of the model accepts *)
              if negb (forallb (fun f => match Unmarshal f with Ok _ => true | _ => false end) fs)
              then HFail [SY "malformed_frame_accepted"] else
              match ok_packets w, omap ok_packets parts with
              | Some ws, Some pss => if packets_eqb ws (List.concat pss) then HPass else HFail [SY "not_concatenation"]
              | _, _ => HFail [SY "whole_rejected_parts_accepted"]
              end
            else
              match split_frames (S (List.length whole_bytes)) whole_bytes with
              | None | Some [] => if is_class "err" w then HPass else HFail [SY "malformed_accepted"]
              | Some frames =>
                  match ok_packets w with
                  | Some ws =>
                      if negb (List.length ws =? List.length frames)%nat then HFail [SY "packet_count"]
                      else
                        (* locality against the per-frame decoder of the model: when every frame decodes on its own,
                           the whole must be exactly those packets in order *)
                        match omap (fun f => match Unmarshal f with Ok [q] => Some q | _ => None end) frames with
                        | Some qs => if packets_eqb ws qs then HPass else HFail [SY "not_local"]
                        | None => HPass
                        end
                  | None =>
                      if is_class "err" w then
                        (* every frame is, on its own, a datagram the decoder accepts, yet the whole is refused *)
                        if forallb (fun f => match Unmarshal f with Ok [_] => true | _ => false end) frames
                        then HFail [SY "well_framed_rejected"] else HPass
                      else HFail [SY "panic_or_malformed"]
                  end
              end
        | _, _, _ => HTrivial
        end
      else if String.eqb o "dgram" then
        match as_B a with
        | Some [] => if is_class "err" impl then HPass else HFail [SY "empty_accepted"]
        | _ => HTrivial
        end
      else HTrivial
  | _ => HTrivial
  end.

(* ---------------- C07 ---------------- *)
Definition C07_holds (op impl : sval) : holds :=
  match op with
  | SL [SY o; SB b] =>
      if String.eqb o "dgram" then
        match split_frames 3 b with
        | Some [f] =>
            let t := frame_tag f in
            match ok_packets impl with
            | Some [p] =>
                if negb (tag_eqb (tag_of_packet p) t) then HFail [SY "dispatch"; SY (name_of_tag t); tname p]
                else match p with PRaw r => if bytes_eqb r f then HPass else HFail [SY "raw_not_verbatim"] | _ => HPass end
            | Some _ => HFail [SY "packet_count"]
            | None => if tag_eqb t TRaw then HFail [SY "unregistered_rejected"] else HTrivial
            end
        | _ => HTrivial
        end
      else HTrivial
  | SL [SY o; SY n; SB b] =>
      if String.eqb o "dec" then
        match tag_of_name n, split_frames 3 b with
        | Some t, Some [f] =>
            let u := frame_tag f in
            if tag_eqb t u || tag_eqb t TRaw || tag_eqb t TCompound || tag_eqb u TRaw then HTrivial
            else if is_class "err" impl then HPass else HFail [SY "foreign_accepted"; SY n; SY (name_of_tag u)]
        | _, _ => HTrivial
        end
      else HTrivial
  | _ => HTrivial
  end.

(* ---------------- C08 ---------------- *)
Definition C08_holds (op impl : sval) : holds :=
  match op with
  | SL [SY o; a] =>
      if String.eqb o "enc" then
        match p_packet a, assoc "marshal" impl with
        | Some p, Some mr =>
            let T := tname p in
            (* an encoding longer than the 16-bit length field can express (262140 octets): finding F18 *)
            if 262140 <? size_packet p then
              (if is_class "err" mr then HPass
               else if is_class "panic" mr then HFail [SY "panic"; T; SY "oversize"]
               else HFail [SY "length_field_wraps"; T; SY "oversize"])
            else
            if is_class "panic" mr then HFail [SY "panic"; T] else
            if in_limits p then
              (if is_class "ok" mr then HPass else if in_D p then HFail [SY "in_limits_rejected"; T] else HTrivial)
            else
              if is_class "err" mr then HPass else HFail (SY "over_limit_accepted" :: tsig (fun m => negb (in_limits m)) p)
        | _, _ => HTrivial
        end
      else HTrivial
  | _ => HTrivial
  end.

(* ---------------- C09 ---------------- *)
Fixpoint twcc_all_consistent (ps : list packet) : bool :=
  match ps with
  | [] => true
  | PTWCC t :: r => twcc_hdr_consistent t && twcc_all_consistent r
  | _ :: r => twcc_all_consistent r
  end.
Definition C09_holds (op impl : sval) : holds :=
  match assoc "dec1" impl, assoc "marshal" impl, assoc "dec2" impl with
  | Some d1, Some mr, Some d2 =>
      match ok_packets d1 with
      | None => HTrivial
      | Some ps =>
          if is_class "panic" mr then HFail [SY "marshal_panics"] else
          if negb (twcc_all_consistent ps) then HTrivial else
          match ok_bytes mr with
          | None => HTrivial
          | Some _ =>
              match ok_packets d2 with
              | Some ps' => if packets_eqb ps ps' then HPass
                            else HFail (SY "not_idempotent" :: match filter (fun '(x, y) => negb (packet_eqb x y)) (combine ps ps') with (x, _) :: _ => [tname x] | [] => [] end)
              | None => HFail (SY "reencoding_rejected" :: map tname (firstn 1 ps))
              end
          end
      end
  | _, _, _ => HTrivial
  end.

(* ---------------- C10 ---------------- *)
Definition C10_holds (op impl : sval) : holds :=
  match op with
  | SL [SY o; a] =>
      match p_packet a with
      | Some p =>
          if String.eqb o "enc" then
            match assoc "dest" impl with
            | Some d => if sval_eqb d (sNs (dest_spec p)) then HPass else HFail [SY "dest"; tname p]
            | None => HTrivial
            end
          else if String.eqb o "rt" then
            if negb (in_D p) then HTrivial else
            match assoc "own" impl with
            | Some own => match ok_packet own with
                          | Some v => if list_eqb (dest_spec v) (dest_spec p) then HPass else HFail [SY "dest_after_roundtrip"; tname p]
                          | None =>
                              (* a well-formed packet whose own encoding the decoder refuses has no list after the round trip *)
                              if is_class "err" own || is_class "panic" own then HFail [SY "roundtrip_decode_failed"; tname p] else HTrivial
                          end
            | None => HTrivial
            end
          else HTrivial
      | None => HTrivial
      end
  | _ => HTrivial
  end.

(* ---------------- C11 ---------------- *)
Definition C11_holds (op impl : sval) : holds :=
  match op with
  | SL [SY o; a] =>
      if String.eqb o "cp" then
        match p_packets a, assoc "validate" impl, assoc "cname" impl, assoc "marshal" impl, assoc "size" impl, assoc "dest" impl with
        | Some c, Some v, Some cn, Some mr, Some (SN size), Some d =>
            let okc := compound_ok c in
            if negb (Bool.eqb (is_class "ok" v) okc) then HFail [SY "validate"] else
            if is_class "ok" mr && negb okc then HFail [SY "marshal_accepts_invalid"] else
            if okc && forallb (fun p => is_ok (marshal_packet p)) c && negb (is_class "ok" mr) then HFail [SY "marshal_rejects_valid"] else
            if is_class "ok" mr && negb (forallb (fun p => is_ok (marshal_packet p)) c) then HFail [SY "marshal_succeeds_though_a_member_fails"] else
            if okc && negb (match first_cname c with Some t => sval_eqb cn (SL [SB t; sbool false]) | None => false end) then HFail [SY "cname"] else
            if negb (sval_eqb d (sNs (match c with [] => [] | f :: _ => dest_spec f end))) then HFail [SY "dest"] else
            if negb (size =? fold_right (fun p acc => size_packet p + acc) 0 c) then HFail [SY "size"] else
            HPass
        | _, _, _, _, _, _ => HTrivial
        end
      else HTrivial
  | SL [SY o; SY n; SB b] =>
      (* CompoundPacket.Unmarshal succeeds exactly when the datagram decodes and the result validates *)
      if String.eqb o "dec" && String.eqb n "CompoundPacket" then
        match Unmarshal b with
        | Ok ps => if Bool.eqb (is_class "ok" impl) (compound_ok ps) then HPass else HFail [SY "unmarshal_iff"]
        | _ => if is_class "ok" impl then HFail [SY "unmarshal_iff"] else HPass
        end
      else HTrivial
  | _ => HTrivial
  end.

(* ---------------- C13 ---------------- *)
Local Open Scope Z_scope.
Fixpoint wire_deltas (b : bytes) (types : list N) : option (list Z * N) :=   (* values in 250us units, octets used *)
  match types with
  | [] => Some ([], 0%N)
  | t :: r =>
      if (t =? 1)%N then
        match b with
        | x :: b' => match wire_deltas b' r with Some (vs, n) => Some (Z.of_N (b2n x) :: vs, (n + 1)%N) | None => None end
        | _ => None end
      else
        match b with
        | x :: y :: b' => match wire_deltas b' r with
                          | Some (vs, n) => Some (int16_of (b2n x * 256 + b2n y)%N :: vs, (n + 2)%N) | None => None end
        | _ => None end
  end.
Local Open Scope N_scope.
Definition C13_one (raw : bytes) (t : TWCC) : holds :=
  (* every decoded chunk is a well-formed chunk and is the 16-bit word at its position of the packet *)
  let words := (fix go (n : nat) (b : bytes) : list N :=
                  match n, b with S n', b0 :: b1 :: r => (b2n b0 * 256 + b2n b1) :: go n' r | _, _ => [] end)
                 (List.length (tw_chunks t)) (skipn 20 raw) in
  if negb ((List.length words =? List.length (tw_chunks t))%nat
           && forallb2 (fun c w => chunk_ok c && (chunk_word c =? w)) (tw_chunks t) words)
  then HFail [SY "chunk_vs_wire"] else
  let types := filter is_recv (expand (tw_chunks t) (tw_count t)) in
  if negb (list_eqb (map rd_type (tw_deltas t)) types) then HFail [SY "deltas_vs_statuses"] else
  let start := 20 + 2 * nl (tw_chunks t) in
  match wire_deltas (skipn (N.to_nat start) raw) types with
  | None => HFail [SY "deltas_outside_packet"]
  | Some (vs, used) =>
      if negb (forallb2 (fun d v => Z.eqb (rd_delta d) (250 * v)) (tw_deltas t) vs) then HFail [SY "delta_value"] else
      let declared := 4 * (h_len (tw_hdr t) + 1) in
      if start + used <=? declared then HPass else HFail [SY "outside_declared_length"]
  end.
Definition twcc_abs (t : TWCC) : list N * list RecvDelta :=
  (firstn (N.to_nat (tw_count t)) (expand (tw_chunks t) (tw_count t)), tw_deltas t).
Definition C13_holds (op impl : sval) : holds :=
  match op with
  | SL [SY o; SY n; SB b] =>
      if String.eqb o "dec" && String.eqb n "TransportLayerCC" then
        match ok_packet impl with
        | Some (PTWCC t) => C13_one b t
        | _ => HTrivial
        end
      else HTrivial
  | SL [SY o; SY n; SL bs] =>
      if String.eqb o "decs" then
        match impl with
        | SL rs =>
            match omap ok_packet rs with
            | Some (PTWCC t0 :: ps) =>
                let a0 := twcc_abs t0 in
                if forallb (fun p => match p with
                                     | PTWCC t => let a := twcc_abs t in
                                                  list_eqb (fst a) (fst a0) && sval_eqb (SL (map s_delta (snd a))) (SL (map s_delta (snd a0)))
                                     | _ => false end) ps
                then HPass else HFail [SY "chunking_dependent"]
            | Some _ => HTrivial
            | None => HFail [SY "valid_chunking_rejected"]
            end
        | _ => HTrivial
        end
      else HTrivial
  | _ => HTrivial
  end.

(* ---------------- C14 ---------------- *)
Local Open Scope Z_scope.
Definition dyadic_eqb (m1 e1 m2 e2 : Z) : bool :=      (* m1*2^e1 = m2*2^e2 *)
  let e := Z.min e1 e2 in (m1 * 2 ^ (e1 - e) =? m2 * 2 ^ (e2 - e)).
Local Open Scope N_scope.
Definition C14_holds (op impl : sval) : holds :=
  match op with
  | SL [SY o; SY n; SB b] =>
      if String.eqb o "dec" && String.eqb n "ReceiverEstimatedMaximumBitrate" then
        match ok_packet impl with
        | Some (PREMB p) =>
            let b17 := b2n (nth 17 b x00) in
            let e := b17 / 4 in
            let m := (b17 mod 4) * 65536 + b2n (nth 18 b x00) * 256 + b2n (nth 19 b x00) in
            if negb (nl (remb_ssrcs p) =? b2n (nth 16 b x00)) then HFail [SY "count_octet"] else
            match remb_value (remb_bitrate p) with
            | Some (m', e') => if dyadic_eqb m' e' (Z.of_N m) (Z.of_N e) then HPass
                               else if m =? 0 then HFail [SY "decode_mantissa_zero"] else HFail [SY "decode_inexact"]
            | None => HFail [SY "decode_not_finite"]
            end
        | _ => HTrivial
        end
      else HTrivial
  | SL [SY o; a] =>
      if String.eqb o "enc" then
        match p_packet a, assoc "marshal" impl with
        | Some (PREMB p), Some mr =>
            match f32_of_bits (Z.of_N (remb_bitrate p)) with
            | NaN => HTrivial
            | Inf true => if is_class "err" mr then HPass else HFail [SY "negative_accepted"]
            | Fin true m _ => if (0 <? m)%Z then (if is_class "err" mr then HPass else HFail [SY "negative_accepted"]) else HTrivial
            | _ =>
                if 255 <? nl (remb_ssrcs p) then (if is_class "err" mr then HPass else HFail [SY "count_octet"]) else
                match ok_bytes mr with
                | Some b =>
                    let x := match f32_of_bits (Z.of_N (remb_bitrate p)) with Fin _ m e => ifloor m e | _ => (0x3FFFF * 2 ^ 63)%Z end in
                    let '(e, m) := remb_ref x in
                    let w := Z.to_N e * 2 ^ 18 + Z.to_N m in
                    if negb (b2n (nth 16 b x00) =? nl (remb_ssrcs p)) then HFail [SY "count_octet"]
                    else if bytes_eqb (firstn 3 (skipn 17 b)) (be 3 w) then HPass else HFail [SY "encode_not_floor"]
                | None => HFail [SY "finite_rejected"]
                end
            end
        | _, _ => HTrivial
        end
      else if String.eqb o "rt" then
        match p_packet a, assoc "marshal" impl with
        | Some (PREMB p), Some mr =>
            if 255 <? nl (remb_ssrcs p) then (if is_class "err" mr then HPass else HFail [SY "count_octet"])
            else match ok_bytes mr with
                 | Some b => if b2n (nth 16 b x00) =? nl (remb_ssrcs p) then HPass else HFail [SY "count_octet"]
                 | None => HFail [SY "finite_rejected"]
                 end
        | _, _ => HTrivial
        end
      else HTrivial
  | _ => HTrivial
  end.

(* ---------------- C15 ---------------- *)
Definition ts_ok (b : sblock) (ts : N) : bool :=
  match b with
  | SRLE _ t _ _ _ _ | SPRT t _ _ _ _ => ts mod 16 =? t mod 16
  | SSS l d j toh _ => (ts =? (if l then 128 else 0) + (if d then 64 else 0) + (if j then 32 else 0) + (toh mod 4) * 8)
  | SUnknown _ t _ => ts =? t
  | _ => true
  end.
Definition bt_of (b : sblock) : N :=
  match b with SRLE d _ _ _ _ _ => if d then 2 else 1 | SPRT _ _ _ _ _ => 3 | SRRT _ => 4 | SDLRR _ => 5 | SSS _ _ _ _ _ => 6 | SVoIP _ => 7 | SUnknown bt _ _ => bt end.
Definition rle_even (b : sblock) : bool := match b with SRLE _ _ _ _ _ cs => nl cs mod 2 =? 0 | _ => true end.
Definition C15_holds (op impl : sval) : holds :=
  match op with
  | SL [SY o; a] =>
      if String.eqb o "rt" then
        match p_packet a, assoc "marshal" impl, assoc "own" impl with
        | Some (PXR x), Some mr, Some own =>
            match ok_bytes mr with
            | None => HTrivial
            | Some b =>
                let sbs := map abs_block (xr_blocks x) in
                if negb (forallb D_sblock sbs) then
                  (* outside the well-formed domain nothing is claimed, except that an RLE block with an odd number of
                     chunks (otherwise well-formed) must not be emitted unaligned *)
                  (if forallb (fun s => D_sblock s || negb (rle_even s)) sbs && negb (len b mod 4 =? 0) then HFail [SY "unaligned_block"] else HTrivial)
                else
                match walk_blocks (S (List.length b)) (skipn 8 b) with
                | None => HFail [SY "blocks_not_self_delimiting"]
                | Some ws =>
                    if negb (List.length ws =? List.length sbs)%nat then HFail [SY "block_count"] else
                    if negb (forallb2 (fun w s => let '(bt, ts, _) := w in (bt =? bt_of s) && ts_ok s ts) ws sbs) then HFail [SY "block_header"] else
                    match ok_packet own with
                    | Some (PXR y) =>
                        if D_XR x then (if XR_eqb x y then HPass else HFail [SY "blocks_differ_after_decode"]) else HPass
                    | _ => if D_XR x then HFail [SY "own_output_rejected"] else HPass
                    end
                end
            end
        | _, _, _ => HTrivial
        end
      else HTrivial
  | _ => HTrivial
  end.

(* ---------------- C16 ---------------- *)
Definition unit_spec_enc (v : sval) : option (option bytes) :=   (* Some None = must be rejected *)
  match v with
  | SL (SY n :: l) =>
      if String.eqb n "Header" then
        let? h := p_header (SL l) in
        Some (if 31 <? h_count h then None else Some (hdr (h_pad h) (h_count h) (h_type h) (h_len h)))
      else if String.eqb n "ReceptionReport" then
        let? r := p_rrep (SL l) in Some (if rr_lost r <? 16777216 then Some (enc_rrep r) else None)
      else if String.eqb n "RunLengthChunk" then
        let? c := p_tchunk v in match c with RLC _ s r => if fits 2 s && fits 13 r then Some (Some (be 2 (chunk_word c))) else None | _ => None end
      else if String.eqb n "StatusVectorChunk" then
        let? c := p_tchunk v in if chunk_ok c then Some (Some (be 2 (chunk_word c))) else None
      else if String.eqb n "RecvDelta" then
        let? d := p_delta (SL l) in
        if (Z.rem (rd_delta d) 250 =? 0)%Z then Some (if delta_in_range d then Some (enc_delta d) else None) else None
      else if String.eqb n "CCFeedbackMetricBlock" then
        let? m := p_metric (SL l) in if D_metric m then Some (Some (enc_metric m)) else None
      else None
  | _ => None
  end.
Definition C16_holds (op impl : sval) : holds :=
  match op with
  | SL [SY o; a] =>
      if String.eqb o "encu" then
        match unit_spec_enc a with
        | Some (Some b) => if sval_eqb impl (sres SB (Ok b)) then HPass else HFail [SY "unit_encode"; SY (sym_name (op_arg1 (SL [SY ""; a])))]
        | Some None => if is_class "err" impl then HPass else HFail [SY "unit_out_of_range_accepted"]
        | None => HTrivial
        end
      else if String.eqb o "rt" then
        (* single-entry packets: encode-then-decode through the type's own decoder is the identity *)
        match p_packet a, assoc "marshal" impl, assoc "own" impl with
        | Some p, Some mr, Some own =>
            if negb (in_D p) then HTrivial else
            match ok_bytes mr, ok_packet own with
            | Some _, Some v => if packet_eqb v (q p) then HPass else HFail [SY "entry_roundtrip"; tname p]
            | _, _ => HFail [SY "entry_roundtrip"; tname p]
            end
        | _, _, _ => HTrivial
        end
      else if String.eqb o "xrchunk" then
        (* XR RLE chunk accessors (RFC 3611 4.1.1-4.1.3): the word rebuilt from Type() (0 run length, 1 bit vector,
           2 terminating null), RunType() (only a run-length chunk has one) and Value() is the word itself *)
        match as_N a, impl with
        | Some c, SL [SN ty; rt; SN v] =>
            let rebuilt :=
              if ty =? 0 then
                match rt with
                | SL [SY k; SN r] => if String.eqb k "ok" && (r <? 2) && (v <? 16384) then Some (r * 16384 + v) else None
                | _ => None
                end
              else if ty =? 1 then (if (v <? 32768) && is_class "err" rt then Some (32768 + v) else None)
              else if ty =? 2 then (if (v =? 0) && is_class "err" rt then Some 0 else None)
              else None in
            match rebuilt with
            | Some c' => if c' =? c then HPass else HFail [SY "xr_chunk_accessors"]
            | None => HFail [SY "xr_chunk_accessors"]
            end
        | _, _ => HTrivial
        end
      else HTrivial
  | SL [SY o; SY n; SB b] =>
      if String.eqb o "dec" then
        (* decode-then-encode is the identity on canonical wire units; short / bad-version headers are rejected *)
        if String.eqb n "Header" then
          if (len b <? 4) || negb (b2n (nth 0 b x00) / 64 =? 2) then (if is_class "err" impl then HPass else HFail [SY "bad_header_accepted"])
          else match ok_payload impl with
               | Some v => match unit_spec_enc v with Some (Some b') => if bytes_eqb b' (firstn 4 b) then HPass else HFail [SY "unit_decode"; SY n] | _ => HFail [SY "unit_decode"; SY n] end
               | None => HFail [SY "valid_unit_rejected"; SY n]
               end
        else if String.eqb n "RunLengthChunk" || String.eqb n "StatusVectorChunk" || String.eqb n "RecvDelta" || String.eqb n "ReceptionReport" || String.eqb n "CCFeedbackMetricBlock" then
          let good_len := if String.eqb n "ReceptionReport" then 24 <=? len b else if String.eqb n "RecvDelta" then (len b =? 1) || (len b =? 2) else len b =? 2 in
          if negb good_len then (if is_class "err" impl then HPass else HFail [SY "bad_length_accepted"; SY n]) else
          let canonical :=
            if String.eqb n "RunLengthChunk" then b2n (nth 0 b x00) <? 128
            else if String.eqb n "StatusVectorChunk" then 128 <=? b2n (nth 0 b x00)
            else if String.eqb n "CCFeedbackMetricBlock" then (128 <=? b2n (nth 0 b x00)) || bytes_eqb b [x00; x00]
            else true in
          if negb canonical then HTrivial else
          match ok_payload impl with
          | Some v => match unit_spec_enc v with
                      | Some (Some b') => if bytes_eqb b' (if String.eqb n "ReceptionReport" then firstn 24 b else b) then HPass else HFail [SY "unit_decode"; SY n]
                      | _ => HFail [SY "unit_decode"; SY n] end
          | None => HFail [SY "valid_unit_rejected"; SY n]
          end
        else HTrivial
      else HTrivial
  | _ => HTrivial
  end.

(* ---------------- C17 / C18 ---------------- *)
Definition C17_holds (op impl : sval) : holds :=
  if is_class "panic" impl then HFail [SY "string_panics"; SY (match op with SL [_; SL (SY n :: _)] => n | SL [_; SY k; _] => k | _ => "decoded" end)]
  else if is_class "err" impl then HTrivial else HPass.
Definition C18_holds (op impl : sval) : holds :=
  match op with
  | SL [SY o; pk; SL ops] =>
      if String.eqb o "hist" then
        match p_packet pk, assoc "consistent" impl, assoc "final" impl with
        | Some p, Some c, Some f =>
            if negb (sval_eqb c (sbool true)) then HFail [SY "history_dependent"; tname p] else
            if match assoc "backing" impl with Some b => negb (sval_eqb b (sbool true)) | None => false end
            then HFail [SY "writes_outside_packet"; tname p] else
            if match assoc "stable" impl with Some b => negb (sval_eqb b (sbool true)) | None => false end
            then HFail [SY "returned_bytes_changed_by_a_later_call"; tname p] else
            match p_packet f with
            | Some pf => if packet_eqb pf p then HPass else HFail [SY "packet_modified"; tname p]
            | None => HFail [SY "malformed_observation"]
            end
        | _, _, _ => HTrivial
        end
      else HTrivial
  | SL [SY o; _] =>
      if String.eqb o "inbuf" then (if sval_eqb impl (SL [SY "unchanged"; sbool true]) then HPass else HFail [SY "input_buffer_modified"]) else HTrivial
  | _ => HTrivial
  end.

(* ---------------- operations shared by several properties ---------------- *)
(* (dhist xdatagram (op...)): the statement is evaluated on the packets the IMPLEMENTATION decoded: every result must be
   the one the packets' values determine (whatever was called before, and whatever memory the packets share with the
   input or with each other), the packets must end up unchanged apart from the documented ExtendedReport bookkeeping,
   and the input buffer must not have been written to. *)
Fixpoint first_diff (ops rs irs : list sval) : list sval :=
  match ops, rs, irs with
  | o :: ops', r :: rs', i :: irs' => if sval_eqb r i then first_diff ops' rs' irs' else [o]
  | _, _, _ => []
  end.
Definition dhist_holds (op impl : sval) : holds :=
  match op with
  | SL [_; SB b; SL ops] =>
      match assoc "dec" impl with
      | Some d =>
          if is_class "panic" d then HFail [SY "decode_panics"] else
          match ok_packets d with
          | None => HTrivial
          | Some ps =>
              match dhist_run ps ops, assoc "results" impl, assoc "final" impl, assoc "input" impl with
              | Some (rs, pf), Some (SL irs), Some ifin, Some inp =>
                  if negb (sval_eqb inp (sbool true)) then HFail [SY "input_buffer_modified"]
                  else if match assoc "stable" impl with Some b => negb (sval_eqb b (sbool true)) | None => false end
                       then HFail [SY "returned_bytes_changed_by_a_later_call"]
                  else if negb (sval_eqb (SL rs) (SL irs)) then HFail (SY "result_depends_on_history" :: first_diff ops rs irs)
                  else if negb (sval_eqb (SL (map s_packet pf)) ifin) then HFail [SY "decoded_packet_modified"]
                  else HPass
              | _, _, _, _ => HFail [SY "malformed_observation"]
              end
          end
      | None => HFail [SY "malformed_observation"]
      end
  | _ => HTrivial
  end.
(* (scribble <Type> xbytes): what the decoder returned must not change when the caller reuses the buffer, for the
   types whose decoder keeps no reference to it, and must still marshal to what its value determines. *)
Definition scribble_holds (op impl : sval) : holds :=
  match assoc "dec" impl, assoc "after" impl, assoc "marshal" impl with
  | Some d, Some a, Some m =>
      match ok_payload d with
      | None => HTrivial
      | Some v =>
          if negb (sval_eqb v a) then HFail [SY "decoded_value_aliases_input"; match v with SL (SY n :: _) => SY n | _ => SY "?" end]
          else match p_packet v with
               | Some p => if sval_eqb m (sres SB (marshal_packet p)) then HPass else HFail [SY "marshal_after_buffer_reuse"; tname p]
               | None => HFail [SY "malformed_observation"]
               end
      end
  | _, _, _ => HFail [SY "malformed_observation"]
  end.
(* (dec2 <Type> xb1 xb2): a fixed-width unit decoded into a receiver that already holds another unit is the unit on
   the wire, not a mixture (StatusVectorChunk, whose decoder appends to its symbol list, is left to the comparison
   with the model). *)
Definition dec2_holds (op impl : sval) : holds :=
  match op with
  | SL [_; SY n; SB b1; SB b2] =>
      if String.eqb n "StatusVectorChunk" then HTrivial else
      match assoc "second" impl, dec_by_name n b2 with
      | Some i2, Some fresh =>
          if is_class "panic" i2 then HFail [SY "panic"; SY n]
          else if sval_eqb i2 fresh then HPass else HFail [SY "receiver_state_leaks"; SY n]
      | _, _ => HFail [SY "malformed_observation"]
      end
  | _ => HTrivial
  end.

Definition prop_holds0 (prop : string) (op impl meta : sval) : holds :=
  if String.eqb prop "C01" then C01_holds op impl meta
  else if String.eqb prop "C02" then C02_holds op impl
  else if String.eqb prop "C03" then C03_holds op impl
  else if String.eqb prop "C04" then
    (match op with
     | SL [SY o; SY n; SB b] => if String.eqb o "inflated" then C04_inflated op impl n else HTrivial
     | _ => C04_holds op impl end)
  else if String.eqb prop "C05" then C05_holds op impl
  else if String.eqb prop "C06" then C06_holds op impl
  else if String.eqb prop "C07" then C07_holds op impl
  else if String.eqb prop "C08" then C08_holds op impl
  else if String.eqb prop "C09" then C09_holds op impl
  else if String.eqb prop "C10" then C10_holds op impl
  else if String.eqb prop "C11" then C11_holds op impl
  else if String.eqb prop "C12" then C12_holds op impl
  else if String.eqb prop "C13" then C13_holds op impl
  else if String.eqb prop "C14" then C14_holds op impl
  else if String.eqb prop "C15" then C15_holds op impl
  else if String.eqb prop "C16" then C16_holds op impl
  else if String.eqb prop "C17" then C17_holds op impl
  else if String.eqb prop "C18" then C18_holds op impl
  else HPass.
Definition prop_holds (prop : string) (op impl meta : sval) : holds :=
  let o := op_name op in
  if String.eqb prop "C01" then prop_holds0 prop op impl meta
  else if String.eqb o "enc"
          && match assoc "marshalto" impl, assoc "marshal" impl with Some a, Some b => negb (sval_eqb a b) | _, _ => false end
       then HFail [SY "marshalto_differs_from_marshal"]
  else if String.eqb o "dhist" then dhist_holds op impl
  else if String.eqb o "scribble" then scribble_holds op impl
  else if String.eqb o "dec2" then dec2_holds op impl
  else prop_holds0 prop op impl meta.
Definition prop_agree (prop : string) (id op m i : sval) : option sval :=
  if String.eqb prop "C12" then C12_agree id op m i
  else if String.eqb prop "C01" then C01_agree id m i
  else agree_all id m i.

(* which differences between the model and the functions translated from the source count for a property: C01 only
   claims the absence of panics, C12 only which sequence numbers are covered (both are compared with the model on just
   that); every other property is decided on the model's complete observation, so the translated functions must give it too *)
Definition src_diffs (prop : string) (op : sval) : list sval :=
  if String.eqb prop "C12" then []
  else if String.eqb prop "C01" then
    filter (fun d => match d with
                     | SL [_; m; v] => negb (Bool.eqb (is_class "panic" m || is_class "fuel" m) (is_class "panic" v || is_class "fuel" v))
                     | _ => true end) (src_check op)
  else src_check op.

Definition check_one (id : sval) (prop : string) (op impl meta : sval) : sval :=
  match run_op op with
  | None => SL [SY "verdict"; id; SL [SY "unsupported"]]
  | Some m =>
      match prop_holds prop op impl meta with
      | HFail sig => fail id sig
      | h =>
          match prop_agree prop id op m impl with
          | Some d => d
          | None =>
              (* the functions translated from the source text must agree with the model on this case as well *)
              match src_diffs prop op with
              | d :: _ => diff id "source_translation" (SL [SY "model-vs-translated"]) d
              | [] => match h with HTrivial => SL [SY "verdict"; id; SL [SY "trivial"]] | _ => pass id end
              end
          end
      end
  end.

Definition check_case (line : sval) : sval :=
  match line with
  | SL [SY k; id; SY prop; op; impl; meta] =>
      if String.eqb k "chk" then check_one id prop op impl meta else SL [SY "bad-line"]
  | SL [SY k; id; SY prop; op; impl] =>
      if String.eqb k "chk" then check_one id prop op impl (SL []) else SL [SY "bad-line"]
  | _ => SL [SY "bad-line"]
  end.

(* coarse classification of a verdict, used to cross-check the extracted runner against evaluation inside Coq:
   0 pass, 1 trivial, 2 diff, 3 fail, 4 unsupported, 5 anything else *)
Definition verdict_kind (v : sval) : N :=
  match v with
  | SL [SY _; _; SY k] => if String.eqb k "pass" then 0 else 5
  | SL [SY _; _; SL (SY k :: _)] =>
      if String.eqb k "trivial" then 1 else if String.eqb k "diff" then 2 else if String.eqb k "fail" then 3
      else if String.eqb k "unsupported" then 4 else 5
  | _ => 5
  end.
Definition check_kinds (lines : list sval) : list N := map (fun l => verdict_kind (check_case l)) lines.
