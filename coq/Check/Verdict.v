(* Verdicts: for a line (chk <id> <property> <op> <impl-observation>) decide
   (1) whether model and implementation agree on the observables the property talks about and
   (2) whether the property's executable statement holds of the IMPLEMENTATION's observation.
   Answer: (verdict id pass) | (verdict id (diff <what> <model> <impl>)) | (verdict id (fail <sig>...)) *)
From Coq Require Import List NArith ZArith Bool String.
From Coq.Strings Require Import Byte.
From RTCP Require Import Lib.Base Lib.Sval Model.Feedback Spec.NackSpec Check.Codec Check.Ops.
Import ListNotations.
Local Open Scope string_scope.
Local Open Scope list_scope.
Local Open Scope N_scope.

Definition pass (id : sval) : sval := SL [SY "verdict"; id; SY "pass"].
Definition diff (id : sval) (what : string) (m i : sval) : sval := SL [SY "verdict"; id; SL [SY "diff"; SY what; m; i]].
Definition fail (id : sval) (sig : list sval) : sval := SL [SY "verdict"; id; SL (SY "fail" :: sig)].

(* generic: the whole observation must be equal *)
Definition agree_all (id m i : sval) : option sval :=
  if sval_eqb m i then None else Some (diff id "obs" m i).

(* outcome of a property's executable statement on the implementation's observation *)
Inductive holds := HPass | HTrivial | HFail (sig : list sval).

Definition sigl (l : list string) : list sval := map SY l.

(* ---------------- C12 ---------------- *)
Definition p_pairs (v : sval) : option (list NackPair) := p_list p_pair v.
Definition C12_holds (op impl : sval) : holds :=
  match op with
  | SL [SY o; a] =>
      if String.eqb o "nackpairs" then
        match as_Ns a, p_pairs impl with
        | Some l, Some ps =>
            if forallb (fun p => (np_id p <? 65536) && (np_bm p <? 65536)) ps && same_set (covered ps) l
            then (match l with [] => HTrivial | _ => HPass end)
            else HFail (sigl ["covered_set"])
        | _, _ => HFail (sigl ["malformed_observation"])
        end
      else HTrivial
  | SL [SY o; SN id; SN bm] =>
      if String.eqb o "plist" then
        if sval_eqb impl (sNs (packet_list_spec (mkNackPair id bm))) then HPass else HFail (sigl ["packet_list"])
      else HTrivial
  | SL [SY o; SN id; SN bm; SN k] =>
      if String.eqb o "range" then
        if sval_eqb impl (sNs (firstn (S (N.to_nat k)) (packet_list_spec (mkNackPair id bm)))) then HPass
        else HFail (sigl ["range"])
      else HTrivial
  | _ => HTrivial
  end.
(* agreement for C12: the covered set, not the pair list (starting a new pair where the code sets bit 15 is harmless) *)
Definition C12_agree (id op m i : sval) : option sval :=
  match op with
  | SL [SY o; a] =>
      if String.eqb o "nackpairs" then
        match p_pairs m, p_pairs i with
        | Some pm, Some pi => if same_set (covered pm) (covered pi) then None else Some (diff id "covered_set" m i)
        | _, _ => Some (diff id "obs" m i)
        end
      else agree_all id m i
  | _ => agree_all id m i
  end.

Definition prop_holds (prop : string) (op impl meta : sval) : holds :=
  if String.eqb prop "C12" then C12_holds op impl
  else HPass.
Definition prop_agree (prop : string) (id op m i : sval) : option sval :=
  if String.eqb prop "C12" then C12_agree id op m i
  else agree_all id m i.

Definition check_one (id : sval) (prop : string) (op impl meta : sval) : sval :=
  match run_op op with
  | None => SL [SY "verdict"; id; SL [SY "unsupported"]]
  | Some m =>
      match prop_holds prop op impl meta with
      | HFail sig => fail id sig
      | h =>
          match prop_agree prop id op m impl with
          | Some d => d
          | None => match h with HTrivial => SL [SY "verdict"; id; SL [SY "trivial"]] | _ => pass id end
          end
      end
  end.

Definition check_case (line : sval) : sval :=
  match line with
  | SL [SY k; id; SY prop; op; impl; meta] =>
      if String.eqb k "chk" then check_one id prop op impl meta else SL [SY "bad-line"]
  | SL [SY k; id; SY prop; op; impl] =>
      if String.eqb k "chk" then check_one id prop op impl (SL []) else SL [SY "bad-line"]
  | _ => SL [SY "bad-line"]
  end.
