(* Typed codecs between S-expressions (Lib/Sval) and model values.  Field order is the
   Go declaration order, as printed by the harness through reflection. *)
From Coq Require Import List NArith ZArith Bool String.
From Coq.Strings Require Import Byte.
From RTCP Require Import Lib.Base Lib.Sval Lib.Reflect Gen.Layouts
  Model.Header Model.Reports Model.Sdes Model.ByeApp Model.Feedback Model.Twcc Model.Ccfb Model.Remb Model.Xr Model.Packet.
Import ListNotations.
Local Open Scope N_scope.

Definition sy (s : string) : sval := SY s.

(* ---- Header ---- *)
Definition s_header (h : Header) : sval := SL [sbool (h_pad h); SN (h_count h); SN (h_type h); SN (h_len h)].
Definition p_header (v : sval) : option Header :=
  match v with
  | SL [p; SN c; SN t; SN l] => let? p := as_bool p in Some (mkHeader p c t l)
  | _ => None end.

(* ---- reports ---- *)
Definition s_rrep (r : RRep) : sval :=
  SL [SN (rr_ssrc r); SN (rr_frac r); SN (rr_lost r); SN (rr_seq r); SN (rr_jit r); SN (rr_lsr r); SN (rr_delay r)].
Definition p_rrep (v : sval) : option RRep :=
  match v with SL [SN a; SN b; SN c; SN d; SN e; SN f; SN g] => Some (mkRRep a b c d e f g) | _ => None end.
Definition p_list {A} (f : sval -> option A) (v : sval) : option (list A) := let? l := as_L v in omap f l.

Definition s_sr (x : SR) : list sval :=
  [SN (sr_ssrc x); SN (sr_ntp x); SN (sr_rtp x); SN (sr_pcount x); SN (sr_ocount x); SL (map s_rrep (sr_reports x)); SB (sr_ext x)].
Definition p_sr (l : list sval) : option SR :=
  match l with
  | [SN a; SN b; SN c; SN d; SN e; rs; SB x] => let? rs := p_list p_rrep rs in Some (mkSR a b c d e rs x)
  | _ => None end.
Definition s_rr (x : RR) : list sval := [SN (rcv_ssrc x); SL (map s_rrep (rcv_reports x)); SB (rcv_ext x)].
Definition p_rr (l : list sval) : option RR :=
  match l with [SN a; rs; SB x] => let? rs := p_list p_rrep rs in Some (mkRR a rs x) | _ => None end.

(* ---- SDES ---- *)
Definition s_item (i : SItem) : sval := SL [SN (it_type i); SB (it_text i)].
Definition p_item (v : sval) : option SItem := match v with SL [SN t; SB x] => Some (mkSItem t x) | _ => None end.
Definition s_chunk (c : SChunk) : sval := SL [SN (ch_src c); SL (map s_item (ch_items c))].
Definition p_chunk (v : sval) : option SChunk :=
  match v with SL [SN s; its] => let? its := p_list p_item its in Some (mkSChunk s its) | _ => None end.
Definition s_sdes (x : SDES) : list sval := [SL (map s_chunk (sd_chunks x))].
Definition p_sdes (l : list sval) : option SDES :=
  match l with [cs] => let? cs := p_list p_chunk cs in Some (mkSDES cs) | _ => None end.

(* ---- BYE / APP ---- *)
Definition s_bye (x : BYE) : list sval := [sNs (bye_sources x); SB (bye_reason x)].
Definition p_bye (l : list sval) : option BYE :=
  match l with [ss; SB r] => let? ss := as_Ns ss in Some (mkBYE ss r) | _ => None end.
Definition s_app (x : APP) : list sval := [SN (app_subtype x); SN (app_ssrc x); SB (app_name x); SB (app_data x)].
Definition p_app (l : list sval) : option APP :=
  match l with [SN a; SN b; SB n; SB d] => Some (mkAPP a b n d) | _ => None end.

(* ---- feedback ---- *)
Definition s_pair (p : NackPair) : sval := SL [SN (np_id p); SN (np_bm p)].
Definition p_pair (v : sval) : option NackPair := match v with SL [SN a; SN b] => Some (mkNackPair a b) | _ => None end.
Definition s_nack (x : NACK) : list sval := [SN (nack_sender x); SN (nack_media x); SL (map s_pair (nack_pairs x))].
Definition p_nack (l : list sval) : option NACK :=
  match l with [SN a; SN b; ps] => let? ps := p_list p_pair ps in Some (mkNACK a b ps) | _ => None end.
Definition s_pli (x : PLI) : list sval := [SN (pli_sender x); SN (pli_media x)].
Definition p_pli (l : list sval) : option PLI := match l with [SN a; SN b] => Some (mkPLI a b) | _ => None end.
Definition s_rrr (x : RRR) : list sval := [SN (rrr_sender x); SN (rrr_media x)].
Definition p_rrr (l : list sval) : option RRR := match l with [SN a; SN b] => Some (mkRRR a b) | _ => None end.
Definition s_slie (e : SLIEntry) : sval := SL [SN (sli_first e); SN (sli_number e); SN (sli_picture e)].
Definition p_slie (v : sval) : option SLIEntry := match v with SL [SN a; SN b; SN c] => Some (mkSLIEntry a b c) | _ => None end.
Definition s_sli (x : SLI) : list sval := [SN (sli_sender x); SN (sli_media x); SL (map s_slie (sli_entries x))].
Definition p_sli (l : list sval) : option SLI :=
  match l with [SN a; SN b; es] => let? es := p_list p_slie es in Some (mkSLI a b es) | _ => None end.
Definition s_fire (e : FIREntry) : sval := SL [SN (fir_ssrc e); SN (fir_seq e)].
Definition p_fire (v : sval) : option FIREntry := match v with SL [SN a; SN b] => Some (mkFIREntry a b) | _ => None end.
Definition s_fir (x : FIR) : list sval := [SN (fir_sender x); SN (fir_media x); SL (map s_fire (fir_entries x))].
Definition p_fir (l : list sval) : option FIR :=
  match l with [SN a; SN b; es] => let? es := p_list p_fire es in Some (mkFIR a b es) | _ => None end.

(* ---- TWCC ---- *)
Definition s_tchunk (c : TChunk) : sval :=
  match c with
  | RLC t s r => SL [sy "RunLengthChunk"; SN t; SN s; SN r]
  | SVC t ss l => SL [sy "StatusVectorChunk"; SN t; SN ss; sNs l]
  end.
Definition p_tchunk (v : sval) : option TChunk :=
  match v with
  | SL [k; SN t; SN s; SN r] => if sym_is k "RunLengthChunk" then Some (RLC t s r) else None
  | SL [k; SN t; SN ss; l] => if sym_is k "StatusVectorChunk" then let? l := as_Ns l in Some (SVC t ss l) else None
  | _ => None end.
Definition s_delta (d : RecvDelta) : sval := SL [SN (rd_type d); SZ (rd_delta d)].
Definition p_delta (v : sval) : option RecvDelta :=
  match v with SL [SN t; d] => let? d := as_Z d in Some (mkRecvDelta t d) | _ => None end.
Definition s_twcc (x : TWCC) : list sval :=
  [s_header (tw_hdr x); SN (tw_sender x); SN (tw_media x); SN (tw_base x); SN (tw_count x); SN (tw_reftime x); SN (tw_fb x);
   SL (map s_tchunk (tw_chunks x)); SL (map s_delta (tw_deltas x))].
Definition p_twcc (l : list sval) : option TWCC :=
  match l with
  | [h; SN a; SN b; SN c; SN d; SN e; SN f; cs; ds] =>
      let? h := p_header h in let? cs := p_list p_tchunk cs in let? ds := p_list p_delta ds in
      Some (mkTWCC h a b c d e f cs ds)
  | _ => None end.

(* ---- CCFB ---- *)
Definition s_metric (m : CCMetric) : sval := SL [sbool (mb_received m); SN (mb_ecn m); SN (mb_offset m)].
Definition p_metric (v : sval) : option CCMetric :=
  match v with SL [r; SN e; SN o] => let? r := as_bool r in Some (mkCCMetric r e o) | _ => None end.
Definition s_ccblock (b : CCBlock) : sval := SL [SN (cb_ssrc b); SN (cb_begin b); SL (map s_metric (cb_metrics b))].
Definition p_ccblock (v : sval) : option CCBlock :=
  match v with SL [SN s; SN b; ms] => let? ms := p_list p_metric ms in Some (mkCCBlock s b ms) | _ => None end.
Definition s_ccfb (x : CCFB) : list sval := [SN (cc_sender x); SL (map s_ccblock (cc_blocks x)); SN (cc_timestamp x)].
Definition p_ccfb (l : list sval) : option CCFB :=
  match l with [SN s; bs; SN t] => let? bs := p_list p_ccblock bs in Some (mkCCFB s bs t) | _ => None end.

(* ---- REMB ---- *)
Definition s_remb (x : REMB) : list sval := [SN (remb_sender x); SN (remb_bitrate x); sNs (remb_ssrcs x)].
Definition p_remb (l : list sval) : option REMB :=
  match l with [SN s; SN b; ss] => let? ss := as_Ns ss in Some (mkREMB s b ss) | _ => None end.

(* ---- XR: generic, directed by the generated layout.  Unexported fields are not in the text. ---- *)
Fixpoint s_val (t : ty) (v : val) {struct v} : sval :=
  match t, v with
  | TSlice TU8, VSlice vs => SB (map (fun x => match x with VU n => n2b n | _ => x00 end) vs)
  | TSlice e, VSlice vs => SL (map (s_val e) vs)
  | TStruct fs, VStruct vs =>
      SL ((fix go (vs : list val) (fs : list field) {struct vs} : list sval :=
             match vs, fs with
             | x :: vs', Field _ ft _ ex :: fs' => if ex then s_val ft x :: go vs' fs' else go vs' fs'
             | _, _ => []
             end) vs fs)
  | TBool, VU n => sbool (0 <? n)
  | _, VU n => SN n
  | _, _ => SL []
  end.
Fixpoint p_val (t : ty) (v : sval) {struct t} : option val :=
  match t with
  | TSlice e =>
      match v with
      | SB b => match e with TU8 => Some (VSlice (map (fun x => VU (b2n x)) b)) | _ => None end
      | SL l => let? vs := omap (p_val e) l in Some (VSlice vs)
      | _ => None
      end
  | TStruct fs =>
      match v with
      | SL l =>
          let? vs := (fix go (fs : list field) (l : list sval) {struct fs} : option (list val) :=
                        match fs with
                        | [] => match l with [] => Some [] | _ => None end
                        | Field _ ft _ ex :: fs' =>
                            if ex then
                              match l with
                              | x :: l' => let? y := p_val ft x in let? ys := go fs' l' in Some (y :: ys)
                              | [] => None
                              end
                            else let? ys := go fs' l in Some (zero_of ft :: ys)
                        end) fs l in
          Some (VStruct vs)
      | _ => None
      end
  | TBool => let? b := as_bool v in Some (VU (if b then 1 else 0))
  | TBad => None
  | _ => let? n := as_N v in Some (VU n)
  end.

Local Open Scope string_scope.
Definition kind_names : list (string * XRKind) :=
  [("LossRLEReportBlock", KLossRLE); ("DuplicateRLEReportBlock", KDupRLE); ("PacketReceiptTimesReportBlock", KPRT);
   ("ReceiverReferenceTimeReportBlock", KRRT); ("DLRRReportBlock", KDLRR); ("StatisticsSummaryReportBlock", KSS);
   ("VoIPMetricsReportBlock", KVoIP); ("UnknownReportBlock", KUnknown)].
Local Close Scope string_scope.
Definition kind_name (k : XRKind) : string :=
  let fix go (l : list (string * XRKind)) := match l with [] => EmptyString | (n, u) :: r => if kind_eqb k u then n else go r end in
  go kind_names.
Definition kind_of_name (s : string) : option XRKind :=
  let fix go (l : list (string * XRKind)) := match l with [] => None | (n, u) :: r => if String.eqb n s then Some u else go r end in
  go kind_names.

Definition s_xrblock (b : XRBlock) : sval :=
  match s_val (layout_of (xb_kind b)) (xb_val b) with
  | SL l => SL (SY (kind_name (xb_kind b)) :: l)
  | x => SL [SY (kind_name (xb_kind b)); x]
  end.
Definition p_xrblock (v : sval) : option XRBlock :=
  match v with
  | SL (SY n :: l) => let? k := kind_of_name n in let? x := p_val (layout_of k) (SL l) in Some (mkXRBlock k x)
  | _ => None end.
Definition s_xr (x : XR) : list sval := [SN (xr_sender x); SL (map s_xrblock (xr_blocks x))].
Definition p_xr (l : list sval) : option XR :=
  match l with [SN s; bs] => let? bs := p_list p_xrblock bs in Some (mkXR s bs) | _ => None end.

(* ---- packets ---- *)
Fixpoint s_packet (p : packet) : sval :=
  let t := SY (name_of_tag (tag_of_packet p)) in
  match p with
  | PSR x => SL (t :: s_sr x) | PRR x => SL (t :: s_rr x) | PSDES x => SL (t :: s_sdes x) | PBYE x => SL (t :: s_bye x)
  | PAPP x => SL (t :: s_app x) | PNACK x => SL (t :: s_nack x) | PRRR x => SL (t :: s_rrr x) | PTWCC x => SL (t :: s_twcc x)
  | PCCFB x => SL (t :: s_ccfb x) | PPLI x => SL (t :: s_pli x) | PSLI x => SL (t :: s_sli x) | PREMB x => SL (t :: s_remb x)
  | PFIR x => SL (t :: s_fir x) | PXR x => SL (t :: s_xr x) | PRaw b => SL [t; SB b]
  | PCompound l => SL [t; SL (map s_packet l)]
  end.

Fixpoint p_packet (v : sval) {struct v} : option packet :=
  match v with
  | SL (SY n :: l) =>
      match tag_of_name n with
      | Some TSR => option_map PSR (p_sr l) | Some TRR => option_map PRR (p_rr l)
      | Some TSDES => option_map PSDES (p_sdes l) | Some TBYE => option_map PBYE (p_bye l)
      | Some TAPP => option_map PAPP (p_app l) | Some TNACK => option_map PNACK (p_nack l)
      | Some TRRR => option_map PRRR (p_rrr l) | Some TTWCC => option_map PTWCC (p_twcc l)
      | Some TCCFB => option_map PCCFB (p_ccfb l) | Some TPLI => option_map PPLI (p_pli l)
      | Some TSLI => option_map PSLI (p_sli l) | Some TREMB => option_map PREMB (p_remb l)
      | Some TFIR => option_map PFIR (p_fir l) | Some TXR => option_map PXR (p_xr l)
      | Some TRaw => match l with [SB b] => Some (PRaw b) | _ => None end
      | Some TCompound =>
          match l with
          | [SL ps] =>
              option_map PCompound
                ((fix go (ps : list sval) : option (list packet) :=
                    match ps with [] => Some [] | x :: r => let? y := p_packet x in let? ys := go r in Some (y :: ys) end) ps)
          | _ => None
          end
      | None => None
      end
  | _ => None
  end.
