(* The functions translated from the Go source (Gen/Funcs.v, module GoSrc) are run on the same case as the hand-written
   model and their observations compared.  [src_check op] lists the components on which the two differ; it is empty when they
   agree or when the operation involves no translated function.  Run for every case of every property by check_one:
   - it validates the translator and Lib/GoSem.v against the model (which is validated against the implementation);
   - when a change to the Go source makes a lemma of Proofs/SourceEquiv.v fail, it is the search for a concrete input on
     which the translated function now differs from the model. *)
From Coq Require Import List NArith ZArith Bool String.
From Coq.Strings Require Import Byte.
From RTCP Require Import Lib.Base Lib.Sval Lib.GoSem Gen.Funcs Gen.FuncsRemb Gen.FuncsXr Model.Xr Check.XrOracles
  Model.Header Model.Feedback Model.Packet Check.Codec Check.Ops.
Import ListNotations.
Local Open Scope string_scope.

(* signed values are printed with a sign by the harness and the model, non-negative ones without by GoSrc.zn *)
Fixpoint sval_norm (v : sval) : sval :=
  match v with
  | SZ z => if (z <? 0)%Z then SZ z else SN (Z.to_N z)
  | SL l => SL (map sval_norm l)
  | x => x
  end.

Definition cmp (what : string) (m : sval) (s : option sval) : list sval :=
  match s with
  | None => []
  | Some v => if sval_eqb (sval_norm m) (sval_norm v) then [] else [SL [SY what; m; v]]
  end.
(* MarshalSize, DestinationSSRC, Header have no error result: a translated version that contains a loop or an index is
   in the res monad all the same (it could panic); the model's is a plain value *)
Definition cmp_plain (what : string) (m : sval) (s : option sval) : list sval :=
  cmp what m (match s with Some (SL [SY k; x]) => if k =? "ok" then Some x else s | _ => s end).

(* the translated encoders write into a byte list one field at a time (linear per write), so packets with thousands of
   elements cost quadratic time; the comparison is made for cases below a size bound *)
Fixpoint sval_weight (v : sval) : N :=
  match v with
  | SB b => 1 + N.of_nat (List.length b)
  | SL l => fold_left (fun acc x => acc + sval_weight x)%N l 1%N
  | _ => 1%N
  end.
Definition src_check_bound : N := 3000.

(* the REMB packet is an opaque member of GoSrc's Packet sum (there its methods ARE the model's); its own translation, floats
   included, is module GoSrcRemb: the by-name dispatch goes there for that type *)
Definition is_remb (n : string) : bool := n =? "ReceiverEstimatedMaximumBitrate".
Definition t_unmarshal n b := if is_remb n then GoSrcRemb.src_unmarshal n b else GoSrc.src_unmarshal n b.
Definition t_marshal n l := if is_remb n then GoSrcRemb.src_marshal n l else GoSrc.src_marshal n l.
Definition t_size n l := if is_remb n then GoSrcRemb.src_size n l else GoSrc.src_size n l.
Definition t_dest n l := if is_remb n then GoSrcRemb.src_dest n l else GoSrc.src_dest n l.
Definition t_header n l := if is_remb n then GoSrcRemb.src_header n l else GoSrc.src_header n l.

(* ExtendedReport.Unmarshal as translated (module GoSrcXr), its reflective reads instantiated with the reflection model
   (Check/XrOracles.v); both results are printed as GoSrcXr records (the model's through src_xr) *)
Definition model_xr_unmarshal (b : bytes) : sval :=
  sres (fun x => SL (GoSrcXr.show_ExtendedReport (src_xr x))) (XR_unmarshal b).
Definition xr_cmp (n : string) (b : bytes) : list sval :=
  if n =? "ExtendedReport" then
    cmp "xr_unmarshal_translated" (model_xr_unmarshal b) (GoSrcXr.src_xr_unmarshal m_read_uint32 m_read_XRHeader m_read_ReportBlock b)
  else [].

Definition src_check_all (op : sval) : list sval :=
  match op with
  | SL [SY o; SN id; SN bm] =>
      if o =? "plist" then cmp_plain "packet_list" (sNs (packet_list (mkNackPair id bm))) (GoSrc.src_plist (Z.of_N id) (Z.of_N bm)) else []
  | SL [SY o; SN id; SN bm; k] =>
      if o =? "range" then
        match stop_of k with
        | Some st => cmp_plain "range" (sNs (nack_range (mkNackPair id bm) st)) (GoSrc.src_range (Z.of_N id) (Z.of_N bm) st)
        | None => []
        end
      else []
  | SL [SY o; SY n; SB b] =>
      if (o =? "dec") || (o =? "inflated") || (o =? "scribble") then
        if n =? "CompoundPacket" then
          cmp "compound_unmarshal" (sres (fun l => SL (map s_packet l)) (Compound_unmarshal b)) (GoSrc.src_compound_unmarshal b)
        else
        match dec_by_name n b with Some m => cmp "unmarshal" m (t_unmarshal n b) ++ xr_cmp n b | None => [] end
      else []
  | SL [SY o; SY n; SL bs] =>
      if o =? "decs" then
        flat_map (fun x => match x with
                           | SB b => match dec_by_name n b with Some m => cmp "unmarshal" m (t_unmarshal n b) | None => [] end
                           | _ => [] end) bs
      else []
  | SL [SY o; SY n; SB b; _] =>
      if o =? "variant" then
        match dec_by_name n b with Some m => cmp "unmarshal" m (t_unmarshal n b) | None => [] end
      else []
  | SL [SY o; SL (SY n :: fields)] =>
      if o =? "encu" then
        match encu (SL (SY n :: fields)) with Some m => cmp "marshal" m (t_marshal n fields) | None => [] end
      else if (o =? "enc") || (o =? "rt") || (o =? "str") then
        match p_packet (SL (SY n :: fields)) with
        | Some p =>
            cmp "marshal" (sres SB (marshal_packet p)) (t_marshal n fields)
            ++ cmp_plain "size" (SN (size_packet p)) (t_size n fields)
            ++ cmp_plain "dest" (sNs (dest_packet p)) (t_dest n fields)
            ++ match header_of_packet p with Some h => cmp_plain "header" (s_header h) (t_header n fields) | None => [] end
        | None => []
        end
      else []
  | SL [SY o; SB b] =>
      if (o =? "dgram") || (o =? "redec") || (o =? "strdec") || (o =? "inbuf") then
        cmp "datagram" (sres (fun l => SL (map s_packet l)) (Unmarshal b)) (GoSrc.src_dgram b)
      else []
  | SL [SY o; SL l] =>
      if o =? "cp" then
        match p_packets (SL l), GoSrc.src_compound l with
        | Some ps, Some comps =>
            let get k := match find (fun kv => String.eqb (fst kv) k) comps with Some (_, v) => Some v | None => None end in
            cmp "compound_validate" (sres (fun _ => SY "unit") (Compound_validate ps)) (get "validate")
            ++ cmp "compound_cname"
                 (match Compound_cname ps with
                  | Ok (t, e) => if e then SL [SY "err"] else SL [SY "ok"; SB t]
                  | Err => SL [SY "err"] | Panic => SL [SY "panic"] | Fuel => SL [SY "fuel"] end) (get "cname")
            ++ cmp "compound_marshal" (sres SB (marshal_packet (PCompound ps))) (get "marshal")
            ++ cmp_plain "compound_size" (SN (size_packet (PCompound ps))) (get "size")
            ++ cmp_plain "compound_dest" (sNs (dest_packet (PCompound ps))) (get "dest")
        | _, _ => []
        end
      else
      if o =? "encs" then
        match p_packets (SL l) with
        | Some ps => cmp "marshal_list" (sres SB (Marshal ps)) (GoSrc.src_encs l)
        | None => []
        end
      else if o =? "split" then
        match p_bytes_list (SL l) with
        | Some fs => cmp "datagram" (sres (fun l => SL (map s_packet l)) (Unmarshal (List.concat fs))) (GoSrc.src_dgram (List.concat fs))
        | None => []
        end
      else
      if o =? "nackpairs" then
        match as_Ns (SL l) with
        | Some ns => cmp_plain "nackpairs" (SL (map s_pair (nack_pairs_from ns))) (GoSrc.src_nackpairs (map Z.of_N ns))
        | None => []
        end
      else []
  | _ => []
  end.

(* a transport-wide-cc frame can announce 65 535 statuses in 20 octets; the translated decoder appends one delta per
   announced status with `++` (quadratic on a list).  Cases containing such a frame are left to the model/implementation
   comparison: [heavy b] walks the frames of b by their length fields (it also looks at b as a single frame). *)
Definition twcc_count_at (b : bytes) : N :=
  match b with
  | b0 :: b1 :: _ :: _ :: r =>
      if (N.land (b2n b0) 31 =? 15)%N && (b2n b1 =? 205)%N then
        match skipn 10 r with c0 :: c1 :: _ => b2n c0 * 256 + b2n c1 | _ => 0 end%N
      else 0%N
  | _ => 0%N
  end.
Fixpoint heavy_frames (fuel : nat) (b : bytes) : bool :=
  match fuel, b with
  | S f, _ :: _ :: l0 :: l1 :: _ =>
      (1500 <? twcc_count_at b)%N
      || heavy_frames f (skipn (N.to_nat (4 * (b2n l0 * 256 + b2n l1 + 1))) b)
  | _, _ => false
  end.
Fixpoint sval_heavy (v : sval) : bool :=
  match v with
  | SB b => heavy_frames (S (List.length b / 4)) b
  | SL l => existsb sval_heavy l
  | _ => false
  end.

Definition src_check (op : sval) : list sval :=
  if (src_check_bound <? sval_weight op)%N || sval_heavy op then [] else src_check_all op.

Definition src_checks (cases : list sval) : list sval :=
  flat_map (fun c => match c with
                     | SL (SY _ :: id :: _ :: op :: _) => match src_check op with [] => [] | d => [SL (id :: d)] end
                     | _ => [] end) cases.
