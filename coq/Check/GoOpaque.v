(* The two packet types whose methods are outside the fragment the source translator understands (ExtendedReport:
   reflection-driven packet_buffer.go; ReceiverEstimatedMaximumBitrate: float32 arithmetic), as the translated callers in
   Gen/Funcs.v see them: their values and methods are those of the hand-written model (Model/Xr.v, Model/Remb.v), which is
   tied to the implementation by the correspondence check and the generated struct layouts only.  The receivers of the Go
   decoders accumulate: ExtendedReport.Unmarshal appends to Reports, ReceiverEstimatedMaximumBitrate.Unmarshal to SSRCs. *)
From Coq Require Import List NArith ZArith Bool String.
From RTCP Require Import Lib.Base Lib.Sval Model.Xr Model.Remb Check.Codec.
Import ListNotations.

Module GoOpaque.
Definition ExtendedReport := XR.
Definition zero_ExtendedReport : XR := mkXR 0 [].
Definition ExtendedReport_Marshal (x : XR) : res bytes := XR_marshal x.
Definition ExtendedReport_Unmarshal (x0 : XR) (b : bytes) : res XR :=
  res_map (fun x => mkXR (xr_sender x) (xr_blocks x0 ++ xr_blocks x)) (XR_unmarshal b).
Definition ExtendedReport_MarshalSize (x : XR) : Z := Z.of_N (XR_size x).
Definition ExtendedReport_DestinationSSRC (x : XR) : list Z := map Z.of_N (XR_dest x).
Definition show_ExtendedReport (x : XR) : list sval := s_xr x.
Definition read_ExtendedReport (l : list sval) : option XR := p_xr l.

Definition ReceiverEstimatedMaximumBitrate := REMB.
Definition zero_ReceiverEstimatedMaximumBitrate : REMB := mkREMB 0 0 [].
Definition ReceiverEstimatedMaximumBitrate_Marshal (x : REMB) : res bytes := REMB_marshal x.
(* the Go method sets p.SSRCs = nil before it appends: nothing of the receiver survives (Proofs/SourceRemb.v proves this
   definition equal to the translated method for every receiver) *)
Definition ReceiverEstimatedMaximumBitrate_Unmarshal (x0 : REMB) (b : bytes) : res REMB :=
  res_map (fun x => mkREMB (remb_sender x) (remb_bitrate x) (remb_ssrcs x)) (REMB_unmarshal b).
Definition ReceiverEstimatedMaximumBitrate_MarshalSize (x : REMB) : Z := Z.of_N (REMB_size x).
Definition ReceiverEstimatedMaximumBitrate_DestinationSSRC (x : REMB) : list Z := map Z.of_N (REMB_dest x).
Definition show_ReceiverEstimatedMaximumBitrate (x : REMB) : list sval := s_remb x.
Definition read_ReceiverEstimatedMaximumBitrate (l : list sval) : option REMB := p_remb l.
End GoOpaque.
