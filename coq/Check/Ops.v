(* Operations the harness can ask for, evaluated on the model.  A case is an S-expression
   (op args...); [run_op] returns the model's observation in the same format the Go harness
   prints for the implementation (DESIGN.md Appendix B). *)
From Coq Require Import List NArith ZArith Bool String.
From Coq.Strings Require Import Byte.
From RTCP Require Import Lib.Base Lib.Sval Lib.Reflect Gen.Consts
  Model.Header Model.Reports Model.Sdes Model.ByeApp Model.Feedback Model.Twcc Model.Ccfb Model.Remb Model.Xr Model.Packet
  Check.Codec.
Import ListNotations.
Local Open Scope string_scope.
Local Open Scope list_scope.
Local Open Scope N_scope.

Definition tagged (n : string) (l : list sval) : sval := SL (SY n :: l).
Definition unit_sval (v : sval) : list sval := match v with SL l => l | x => [x] end.

Definition res_class (v : sval) : string :=
  match v with SL (SY c :: _) => c | SY c => c | _ => "malformed" end.
Definition ok_payload (v : sval) : option sval :=
  match v with SL [SY c; x] => if String.eqb c "ok" then Some x else None | _ => None end.

(* ---- decoders by Go type name ---- *)
Definition dec_by_name (n : string) (b : bytes) : option sval :=
  match tag_of_name n with
  | Some TCompound => Some (sres (fun l => s_packet (PCompound l)) (Compound_unmarshal b))
  | Some t => Some (sres s_packet (decode_as t b))
  | None =>
      if String.eqb n "Header" then Some (sres (fun h => tagged n (unit_sval (s_header h))) (Header_unmarshal b))
      else if String.eqb n "ReceptionReport" then Some (sres (fun r => tagged n (unit_sval (s_rrep r))) (RRep_unmarshal b))
      else if String.eqb n "SourceDescriptionChunk" then Some (sres (fun r => tagged n (unit_sval (s_chunk r))) (SChunk_unmarshal b))
      else if String.eqb n "SourceDescriptionItem" then Some (sres (fun r => tagged n (unit_sval (s_item r))) (SItem_unmarshal b))
      else if String.eqb n "RunLengthChunk" then Some (sres s_tchunk (RLC_unmarshal b))
      else if String.eqb n "StatusVectorChunk" then Some (sres s_tchunk (SVC_unmarshal b))
      else if String.eqb n "RecvDelta" then Some (sres (fun r => tagged n (unit_sval (s_delta r))) (RecvDelta_unmarshal b))
      else if String.eqb n "CCFeedbackReportBlock" then Some (sres (fun r => tagged n (unit_sval (s_ccblock r))) (CCBlock_unmarshal b))
      else if String.eqb n "CCFeedbackMetricBlock" then Some (sres (fun r => tagged n (unit_sval (s_metric r))) (CCMetric_unmarshal b))
      else None
  end.

(* ---- sub-structure encoders by Go type name: (Name fields...) ---- *)
Definition encu (v : sval) : option sval :=
  match v with
  | SL (SY n :: l) =>
      if String.eqb n "Header" then let? h := p_header (SL l) in Some (sres SB (Header_marshal h))
      else if String.eqb n "ReceptionReport" then let? r := p_rrep (SL l) in Some (sres SB (RRep_marshal r))
      else if String.eqb n "SourceDescriptionChunk" then let? r := p_chunk (SL l) in Some (sres SB (SChunk_marshal r))
      else if String.eqb n "SourceDescriptionItem" then let? r := p_item (SL l) in Some (sres SB (SItem_marshal r))
      else if String.eqb n "RunLengthChunk" then let? r := p_tchunk v in Some (sres SB (TChunk_marshal r))
      else if String.eqb n "StatusVectorChunk" then let? r := p_tchunk v in Some (sres SB (TChunk_marshal r))
      else if String.eqb n "RecvDelta" then let? r := p_delta (SL l) in Some (sres SB (RecvDelta_marshal r))
      else if String.eqb n "CCFeedbackReportBlock" then let? r := p_ccblock (SL l) in Some (sres SB (CCBlock_marshal r))
      else if String.eqb n "CCFeedbackMetricBlock" then let? r := p_metric (SL l) in Some (sres SB (CCMetric_marshal r))
      else None
  | _ => None
  end.

Definition s_opt {A} (f : A -> sval) (o : option A) : sval := match o with Some a => f a | None => SY "none" end.

(* (enc <pkt>): MarshalSize, Header, Len, DestinationSSRC, then Marshal *)
Definition enc_obs (p : packet) : sval :=
  SL ([SL [SY "marshal"; sres SB (marshal_packet p)];
      SL [SY "size"; SN (size_packet p)];
      SL [SY "dest"; sNs (dest_packet p)];
      SL [SY "hdr"; s_opt s_header (header_of_packet p)];
      SL [SY "len"; s_opt SN (len_of_packet p)]]
  ++ (* ReceiverEstimatedMaximumBitrate also offers MarshalTo(buf): into a buffer of MarshalSize octets it is Marshal *)
     match p with PREMB _ => [SL [SY "marshalto"; sres SB (marshal_packet p)]] | _ => [] end).

(* (rt <pkt>): Marshal, the type's own decoder, the datagram decoder, re-marshal of what that returned *)
Definition own_decode (p : packet) (b : bytes) : res packet :=
  match p with
  | PCompound _ => res_map PCompound (Compound_unmarshal b)
  | _ => decode_as (tag_of_packet p) b
  end.
Definition rt_obs (p : packet) : sval :=
  match marshal_packet p with
  | Ok b =>
      let d := Unmarshal b in
      SL [SL [SY "marshal"; sres SB (Ok b)];
          SL [SY "own"; sres s_packet (own_decode p b)];
          SL [SY "dgram"; sres (fun l => SL (map s_packet l)) d];
          SL [SY "remarshal"; match d with Ok ps => sres SB (Marshal ps) | _ => SY "none" end]]
  | r => SL [SL [SY "marshal"; sres SB r]; SL [SY "own"; SY "none"]; SL [SY "dgram"; SY "none"]; SL [SY "remarshal"; SY "none"]]
  end.
(* (rts (<pkt>...)) *)
Definition rts_obs (ps : list packet) : sval :=
  match Marshal ps with
  | Ok b =>
      let d := Unmarshal b in
      SL [SL [SY "marshal"; sres SB (Ok b)];
          SL [SY "dgram"; sres (fun l => SL (map s_packet l)) d];
          SL [SY "remarshal"; match d with Ok qs => sres SB (Marshal qs) | _ => SY "none" end]]
  | r => SL [SL [SY "marshal"; sres SB r]; SL [SY "dgram"; SY "none"]; SL [SY "remarshal"; SY "none"]]
  end.
(* (redec xbytes): Unmarshal, Marshal of the result, Unmarshal again *)
Definition redec_obs (b : bytes) : sval :=
  match Unmarshal b with
  | Ok ps =>
      let m := Marshal ps in
      SL [SL [SY "dec1"; sres (fun l => SL (map s_packet l)) (Ok ps)];
          SL [SY "marshal"; sres SB m];
          SL [SY "dec2"; match m with Ok b' => sres (fun l => SL (map s_packet l)) (Unmarshal b') | _ => SY "none" end]]
  | r => SL [SL [SY "dec1"; sres (fun l => SL (map s_packet l)) r]; SL [SY "marshal"; SY "none"]; SL [SY "dec2"; SY "none"]]
  end.
(* (cp (<pkt>...)) *)
Definition cp_obs (l : list packet) : sval :=
  SL [SL [SY "validate"; sres (fun _ => SY "unit") (Compound_validate l)];
      SL [SY "cname"; match Compound_cname l with Ok (t, e) => SL [SB t; sbool e] | _ => SL [SB []; sbool true] end];
      SL [SY "marshal"; sres SB (marshal_packet (PCompound l))];
      SL [SY "size"; SN (size_packet (PCompound l))];
      SL [SY "dest"; sNs (dest_packet (PCompound l))]].
(* (split (xframe...)): Unmarshal of the concatenation and of every part *)
Definition split_obs (fs : list bytes) : sval :=
  SL [SL [SY "whole"; sres (fun l => SL (map s_packet l)) (Unmarshal (List.concat fs))];
      SL [SY "parts"; SL (map (fun f => sres (fun l => SL (map s_packet l)) (Unmarshal f)) fs)]].

Definition p_bytes_list (v : sval) : option (list bytes) := let? l := as_L v in omap as_B l.
Definition p_packets (v : sval) : option (list packet) := let? l := as_L v in omap p_packet l.

Definition stop_of (v : sval) : option (option nat) :=
  match v with SN k => Some (Some (N.to_nat k)) | SY _ => Some None | _ => None end.

(* util.go helpers, reached through the verif build-tag hook *)
Definition util_obs (l : list sval) : option sval :=
  match l with
  | [SY f; SN a; SN b; SN c; SN d] =>
      if String.eqb f "setNBitsOfUint16" then Some (sres SN (setNBitsOfUint16 a b c d)) else None
  | [SY f; SN a; SN b; SN c] =>
      if String.eqb f "appendNBitsToUint32" then Some (SN (appendNBitsToUint32 a b c))
      else if String.eqb f "getNBitsFromByte" then Some (SN (getNBitsFromByte a b c)) else None
  | [SY f; SB b] => if String.eqb f "get24BitsFromBytes" then Some (sres SN (get24BitsFromBytes b)) else None
  | [SY f; SN a] => if String.eqb f "getPadding" then Some (SN (get_padding a)) else None
  | _ => None
  end.

(* XR Chunk accessors: Type(), RunType() (value, err), Value() *)
Definition xrchunk_obs (c : N) : sval :=
  let ty := if c =? 0 then c_TerminatingNullChunkType else c / 32768 in
  let rt := if ty =? c_RunLengthChunkType then sres SN (Ok (N.land (c / 16384) 1)) else sres SN Err in
  let v := if ty =? c_RunLengthChunkType then N.land c 16383
           else if ty =? c_BitVectorChunkType then N.land c 32767
           else if ty =? c_TerminatingNullChunkType then 0 else c in
  SL [SN ty; rt; SN v].

(* (hist <pkt> (op...)): a history of read-only operations on one value.  Results are a function of
   the value alone; the only state is ExtendedReport's block-header bookkeeping, filled in by Marshal. *)
Fixpoint xr_after_marshal (p : packet) : packet :=
  match p with
  | PXR x => PXR {| xr_sender := xr_sender x; xr_blocks := map setup_block (xr_blocks x) |}
  | PCompound l =>
      (* Marshal validates first and stops at the first member that fails *)
      match Compound_validate l with
      | Ok _ =>
          PCompound ((fix go (l : list packet) : list packet :=
                        match l with
                        | [] => []
                        | q :: r => match marshal_packet q with
                                    | Ok _ => xr_after_marshal q :: go r
                                    | _ => xr_after_marshal q :: r
                                    end
                        end) l)
      | _ => PCompound l
      end
  | q => q
  end.
Fixpoint hist_run (p : packet) (ops : list sval) : option (list sval * packet) :=
  match ops with
  | [] => Some ([], p)
  | SY o :: r =>
      let? res :=
        (if String.eqb o "marshal" then Some (sres SB (marshal_packet p))
         else if String.eqb o "size" then Some (SN (size_packet p))
         else if String.eqb o "dest" then Some (sNs (dest_packet p))
         else if String.eqb o "string" then Some (SL [SY "ok"])
         else if String.eqb o "header" then Some (s_opt s_header (header_of_packet p))
         else if String.eqb o "len" then Some (s_opt SN (len_of_packet p))
         else None) in
      let p' := if String.eqb o "marshal" then xr_after_marshal p else p in
      let? (rs, pf) := hist_run p' r in
      Some (res :: rs, pf)
  | _ => None
  end.
Definition hist_obs (p : packet) (ops : list sval) : option sval :=
  let? (rs, pf) := hist_run p ops in
  Some (SL [SL [SY "results"; SL rs]; SL [SY "consistent"; sbool true]; SL [SY "final"; s_packet pf];
            SL [SY "backing"; sbool true]; SL [SY "stable"; sbool true]]).

(* (dec2 <Type> b1 b2): two decodes into the SAME receiver, for the fixed-width units.  Their decoders assign every
   field (and fail before assigning any), so the second result is that of a fresh receiver; the one exception in the
   source is StatusVectorChunk.Unmarshal, which appends to SymbolList. *)
Definition dec2_obs (n : string) (b1 b2 : bytes) : option sval :=
  let? d1 := dec_by_name n b1 in
  let? d2 := dec_by_name n b2 in
  let merged :=
    if String.eqb n "StatusVectorChunk" then
      match ok_payload d1, ok_payload d2 with
      | Some (SL [_; _; _; SL l1]), Some (SL [t2; ty2; ss2; SL l2]) => SL [SY "ok"; SL [t2; ty2; ss2; SL (l1 ++ l2)]]
      | _, _ => d2
      end
    else d2 in
  Some (SL [SL [SY "first"; SY (res_class d1)]; SL [SY "second"; merged]]).

(* (scribble <Type> b): decode from a private buffer, overwrite the buffer, then look at the value and marshal it.
   Asked only for the types whose decoder copies everything it keeps (all but RawPacket, ApplicationDefined,
   SenderReport, ReceiverReport and CompoundPacket, which keep sub-slices of the input): the result is that of a
   plain decode. *)
Definition scribble_obs (n : string) (b : bytes) : option sval :=
  match tag_of_name n with
  | Some TCompound => None
  | Some t =>
      let d := decode_as t b in
      Some (SL [SL [SY "dec"; sres s_packet d];
                SL [SY "after"; match d with Ok p => s_packet p | _ => SY "none" end];
                SL [SY "marshal"; match d with Ok p => sres SB (marshal_packet p) | _ => SY "none" end]])
  | None => None
  end.

(* (dhist xdatagram (op...)): a history of operations on the packets a datagram decodes to.
   marshal = rtcp.Marshal(list), marshalrev = rtcp.Marshal(reversed list), each = every p.Marshal() in order,
   string/dest/size = the read-only accessors of every packet.  The only state is the ExtendedReport block-header
   bookkeeping; everything else is a function of the decoded values, whatever memory they share with the input. *)
Fixpoint list_after_marshal (l : list packet) : list packet :=
  match l with
  | [] => []
  | q :: r => match marshal_packet q with
              | Ok _ => xr_after_marshal q :: list_after_marshal r
              | _ => xr_after_marshal q :: r
              end
  end.
Fixpoint dhist_run (ps : list packet) (ops : list sval) : option (list sval * list packet) :=
  match ops with
  | [] => Some ([], ps)
  | SY o :: r =>
      let? (res, ps') :=
        (if String.eqb o "marshal" then Some (sres SB (Marshal ps), list_after_marshal ps)
         else if String.eqb o "marshalrev" then Some (sres SB (Marshal (rev ps)), rev (list_after_marshal (rev ps)))
         else if String.eqb o "each" then Some (SL (map (fun p => sres SB (marshal_packet p)) ps), map xr_after_marshal ps)
         else if String.eqb o "size" then Some (sNs (map size_packet ps), ps)
         else if String.eqb o "dest" then Some (SL (map (fun p => sNs (dest_packet p)) ps), ps)
         else if String.eqb o "string" then Some (SL [SY "ok"], ps)
         else None) in
      let? (rs, pf) := dhist_run ps' r in
      Some (res :: rs, pf)
  | _ => None
  end.
Definition dhist_obs (b : bytes) (ops : list sval) : option sval :=
  match Unmarshal b with
  | Ok ps =>
      let? (rs, pf) := dhist_run ps ops in
      Some (SL [SL [SY "dec"; sres (fun l => SL (map s_packet l)) (Ok ps)];
                SL [SY "results"; SL rs];
                SL [SY "final"; SL (map s_packet pf)];
                SL [SY "input"; sbool true]; SL [SY "stable"; sbool true]])
  | r => Some (SL [SL [SY "dec"; sres (fun l => SL (map s_packet l)) r]])
  end.

Definition run_op (c : sval) : option sval :=
  match c with
  | SL (SY op :: args) =>
      if String.eqb op "util" then util_obs args else
      match args with
      | [a] =>
          if String.eqb op "dgram" then let? b := as_B a in Some (sres (fun l => SL (map s_packet l)) (Unmarshal b))
          else if String.eqb op "enc" then let? p := p_packet a in Some (enc_obs p)
          else if String.eqb op "encu" then encu a
          else if String.eqb op "encs" then let? ps := p_packets a in Some (sres SB (Marshal ps))
          else if String.eqb op "rt" then let? p := p_packet a in Some (rt_obs p)
          else if String.eqb op "rts" then let? ps := p_packets a in Some (rts_obs ps)
          else if String.eqb op "redec" then let? b := as_B a in Some (redec_obs b)
          else if String.eqb op "cp" then let? ps := p_packets a in Some (cp_obs ps)
          else if String.eqb op "split" then let? fs := p_bytes_list a in Some (split_obs fs)
          else if String.eqb op "nackpairs" then let? l := as_Ns a in Some (SL (map s_pair (nack_pairs_from l)))
          else if String.eqb op "xrchunk" then let? n := as_N a in Some (xrchunk_obs n)
          else if String.eqb op "str" then let? p := p_packet a in Some (SL [SY "ok"])
          else if String.eqb op "strdec" then
            let? b := as_B a in
            Some (match Unmarshal b with Ok _ => SL [SY "ok"] | Err => SL [SY "err"] | Panic => SL [SY "panic"] | Fuel => SL [SY "fuel"] end)
          else if String.eqb op "inbuf" then Some (SL [SY "unchanged"; sbool true])
          else None
      | [SY n; SB b] =>
          if String.eqb op "dec" || String.eqb op "inflated" then dec_by_name n b
          else if String.eqb op "scribble" then scribble_obs n b else None
      | [SY n; SL bs] =>
          if String.eqb op "decs" then
            let? l := omap as_B bs in
            option_map SL (omap (dec_by_name n) l)
          else None
      | [SY n; SN v] => if String.eqb op "strenum" then Some (SL [SY "ok"]) else None
      | [SN id; SN bm] => if String.eqb op "plist" then Some (sNs (packet_list (mkNackPair id bm))) else None
      | [SN id; SN bm; k] =>
          if String.eqb op "range" then let? st := stop_of k in Some (sNs (nack_range (mkNackPair id bm) st)) else None
      | [SY n; SB b; expected] =>
          if String.eqb op "variant" then
            let? own := dec_by_name n b in
            Some (SL [SL [SY "own"; own]; SL [SY "dgram"; sres (fun l => SL (map s_packet l)) (Unmarshal b)]])
          else if String.eqb op "dec2" then let? b2 := as_B expected in dec2_obs n b b2
          else None
      | [pk; SL ops] =>
          if String.eqb op "hist" then let? p := p_packet pk in hist_obs p ops
          else if String.eqb op "dhist" then let? b := as_B pk in dhist_obs b ops
          else None
      | _ => None
      end
  | _ => None
  end.

(* one input line is (case <id> <property> <op>); the answer is (obs <id> <model observation>) *)
Definition run_case (line : sval) : sval :=
  match line with
  | SL [SY k; id; prop; op] =>
      if String.eqb k "case" then
        match run_op op with
        | Some o => SL [SY "obs"; id; o]
        | None => SL [SY "obs"; id; SL [SY "unsupported"]]
        end
      else SL [SY "bad-line"]
  | _ => SL [SY "bad-line"]
  end.
