// Source translator: a loop-free fragment of Go (fixed-width integer arithmetic, byte slices the function owns,
// struct fields, early returns, the (value, error) idiom) is rendered as Gallina over Lib/GoSem.v.
//
// The translation is a partial evaluator over the statement list: every `if` duplicates the continuation, so that no
// phi-merging is needed and an error variable is, in every copy, statically known to be nil or non-nil. Anything
// outside the fragment makes the function "untranslatable" (listed in the output with the reason and the position);
// its definition is then missing and every lemma about it stops compiling.
package main

import (
	"bytes"
	"fmt"
	"go/ast"
	"go/constant"
	"go/token"
	"go/types"
	"math"
	"sort"
	"strings"
)

type unsupported struct {
	pos token.Pos
	msg string
}

func (t *translator) fail(n ast.Node, f string, a ...interface{}) {
	var p token.Pos
	if n != nil {
		p = n.Pos()
	}
	panic(unsupported{p, fmt.Sprintf(f, a...)})
}

type kind int

const (
	kOther kind = iota
	kUint
	kSint
	kBool
	kBytes
	kStruct
	kError
	kList
	kString
	kIface
	kMap
	kFloat // float32, carried as its IEEE-754 bit pattern (only math.Float32frombits / Float32bits are in the fragment)
	kFunc  // func(integer) bool: a callback, rendered as a state-passing function
)

type tyInfo struct {
	k     kind
	width int     // 0 = unbounded (int, untyped)
	name  string  // struct name
	elem  *tyInfo // element type of a list
	ptr   bool    // list of pointers to structs (elements may be mutated through the pointer)
}

// ifaceSums: the interfaces of the package that are rendered as closed sums, with the concrete types (pointers to these
// structs) the library itself stores in them.  Other implementors a caller might supply are outside the model.
var ifaceSums = map[string][]string{
	"PacketStatusChunk": {"RunLengthChunk", "StatusVectorChunk"},
	// the block types ExtendedReport.Unmarshal creates
	"ReportBlock": {"LossRLEReportBlock", "DuplicateRLEReportBlock", "PacketReceiptTimesReportBlock", "ReceiverReferenceTimeReportBlock",
		"DLRRReportBlock", "StatisticsSummaryReportBlock", "VoIPMetricsReportBlock", "UnknownReportBlock"},
	// the packet types the datagram decoder creates (CompoundPacket, itself a []Packet, is not a member: lists handed to
	// rtcp.Marshal that contain compound packets are outside the translated fragment)
	"Packet": {"SenderReport", "ReceiverReport", "SourceDescription", "Goodbye", "ApplicationDefined", "TransportLayerNack",
		"RapidResynchronizationRequest", "TransportLayerCC", "CCFeedbackReport", "PictureLossIndication", "SliceLossIndication",
		"ReceiverEstimatedMaximumBitrate", "FullIntraRequest", "ExtendedReport", "RawPacket"},
}

// opaqueTypes: types whose methods are outside the fragment (float32 arithmetic, reflection). Their values and methods
// are taken from Lib/GoOpaque.v, which instantiates them with the hand-written model; the translated callers
// (datagram decoder, list encoder, compound packet) are then about "this Go text, with these two types as modelled".
// oracleFuncs: package functions outside the fragment whose RESULT enters a translated function: each call site becomes
// an extra parameter of the translated function (the equivalence lemma instantiates it with the model's value).
// wireSize is the reflection-driven size computation of packet_buffer.go.
var oracleFuncs = map[string]bool{"wireSize": true}

// oracleMethods: methods outside the fragment (reflection) whose EFFECT enters a translated function. A call
// `recv.m(&lv)` / `recv.m(v)` becomes a call of a function-valued oracle `o_m_T` (T the static type of the pointee or the
// value), a Section variable of the generated module: it takes the receiver and the current value and returns the updated
// receiver and value, or an error. The equivalence proofs instantiate the oracles with the reflection model (Lib/Reflect.v).
var oracleMethods = map[string]bool{"packetBuffer.read": true}

var opaqueTypes = map[string]bool{"ExtendedReport": true, "ReceiverEstimatedMaximumBitrate": true}

// fuelHints: iteration bounds for loops whose condition alone does not bound them, by function and condition text.
// Each is validated by the equivalence proof (the translated function never returns Fuel).
var fuelHints = map[string]string{
	// every iteration returns or advances packetStatusPos by 2, and packetStatusPos+2 <= totalLength <= 65532
	"TransportLayerCC.Unmarshal|processedPacketNum < t.PacketStatusCount": "(Z.to_nat 32800)",
	// every iteration returns or consumes at least the four octets of a header
	"Unmarshal|len(rawData) != 0":                "(S (Z.to_nat (glen $rawData)))",
	"CompoundPacket.Unmarshal|len(rawData) != 0": "(S (Z.to_nat (glen $rawData)))",
	// b has 16 bits and iteration i clears bit i if it is set: b = 0 after at most 16 iterations
	"NackPair.Range|b != 0": "17%nat",
	// mantissa is a non-zero uint32 that doubles until bit 23 is set: at most 23 iterations (an uint32 that doubles 32
	// times is zero, so a mantissa above 2^24 ends the loop as well... it cannot be: it has 18 bits)
	"ReceiverEstimatedMaximumBitrate.Unmarshal|(mantissa & (mantissamax + 1)) == 0": "24%nat",
	// bitrate is a finite float32 (<= 0x3FFFFp+63 after the clamp) that is halved until it is below 2^18
	"ReceiverEstimatedMaximumBitrate.MarshalTo|bitrate >= (1 << 18)": "200%nat",
	// every iteration returns or splits at least one octet (a block length is at least 4) off a non-empty buffer
	"ExtendedReport.Unmarshal|len(buffer.bytes) > 0": "(S (Z.to_nat (glen $b)))",
}

func classify(t types.Type) tyInfo {
	if t == nil {
		return tyInfo{k: kOther}
	}
	if n, ok := t.(*types.Named); ok && n.Obj().Pkg() == nil && n.Obj().Name() == "error" {
		return tyInfo{k: kError}
	}
	if n, ok := t.(*types.Named); ok {
		if _, isSum := ifaceSums[n.Obj().Name()]; isSum {
			if _, isI := n.Underlying().(*types.Interface); isI {
				return tyInfo{k: kIface, name: n.Obj().Name()}
			}
		}
	}
	switch u := t.Underlying().(type) {
	case *types.Basic:
		switch u.Kind() {
		case types.Bool, types.UntypedBool:
			return tyInfo{k: kBool}
		case types.Uint8:
			return tyInfo{k: kUint, width: 8}
		case types.Uint16:
			return tyInfo{k: kUint, width: 16}
		case types.Uint32:
			return tyInfo{k: kUint, width: 32}
		case types.Uint64, types.Uint, types.Uintptr:
			return tyInfo{k: kUint, width: 64}
		case types.Int8:
			return tyInfo{k: kSint, width: 8}
		case types.Int16:
			return tyInfo{k: kSint, width: 16}
		case types.Int32:
			return tyInfo{k: kSint, width: 32}
		case types.Int64:
			return tyInfo{k: kSint, width: 64}
		case types.Int, types.UntypedInt, types.UntypedRune:
			return tyInfo{k: kSint, width: 0}
		case types.String, types.UntypedString:
			return tyInfo{k: kString}
		case types.Float32:
			return tyInfo{k: kFloat, width: 32}
		}
	case *types.Array:
		e := classify(u.Elem())
		switch e.k {
		case kUint, kSint, kBool, kStruct:
			return tyInfo{k: kList, elem: &e}
		}
	case *types.Slice:
		if b, ok := u.Elem().Underlying().(*types.Basic); ok && b.Kind() == types.Uint8 {
			return tyInfo{k: kBytes}
		}
		if pt, isPtr := u.Elem().Underlying().(*types.Pointer); !isPtr {
			e := classify(u.Elem())
			switch e.k {
			case kUint, kSint, kBool, kStruct, kBytes, kIface:
				return tyInfo{k: kList, elem: &e}
			}
		} else if n, ok := pt.Elem().(*types.Named); ok {
			if _, isS := n.Underlying().(*types.Struct); isS {
				e := tyInfo{k: kStruct, name: n.Obj().Name()}
				return tyInfo{k: kList, elem: &e, ptr: true}
			}
		}
	case *types.Map:
		if k, v := classify(u.Key()), classify(u.Elem()); (k.k == kUint || k.k == kSint) && (v.k == kUint || v.k == kSint) {
			return tyInfo{k: kMap}
		}
	case *types.Struct:
		if n, ok := t.(*types.Named); ok {
			return tyInfo{k: kStruct, name: n.Obj().Name()}
		}
	case *types.Pointer:
		if n, ok := u.Elem().(*types.Named); ok {
			if _, ok := n.Underlying().(*types.Struct); ok {
				return tyInfo{k: kStruct, name: n.Obj().Name()}
			}
			// pointer to a named slice or integer type (method receivers such as *RawPacket)
			if e := classify(n); e.k == kBytes || e.k == kList || e.k == kUint || e.k == kSint {
				return e
			}
		}
	case *types.Signature:
		// func(x T) bool with T an integer type: the callback shape of NackPair.Range
		if u.Params().Len() == 1 && u.Results().Len() == 1 && !u.Variadic() {
			a, r := classify(u.Params().At(0).Type()), classify(u.Results().At(0).Type())
			if (a.k == kUint || a.k == kSint) && r.k == kBool {
				return tyInfo{k: kFunc, elem: &a}
			}
		}
	case *types.Interface:
		if types.Identical(t, types.Universe.Lookup("error").Type()) {
			return tyInfo{k: kError}
		}
	}
	return tyInfo{k: kOther}
}

type fieldInfo struct {
	name string
	ty   tyInfo
}

type structInfo struct {
	name    string
	fields  []fieldInfo // supported fields only
	skipped []string
}

type fnSig struct {
	key      string // "Recv.Name" or "Name"
	coq      string
	pure     bool
	ptrRecv  bool
	hasRecv  bool
	recvTy   string
	recvCoq  string
	noracles int
	hasErr   bool
	nres     int   // non-error results
	cbIdx    int   // index of the callback parameter + 1, 0 = none
	oracleM  bool  // a method of oracleMethods
	inout    []int // indices (in the flattened parameter list) of byte-slice parameters the function writes: returned after the receiver
	resTy    []tyInfo
}

type translator struct {
	l            *loaded
	decls        map[string]*ast.FuncDecl
	sigs         map[string]*fnSig
	structs      map[string]*structInfo
	order        []string // struct emission order
	body         bytes.Buffer
	failed       [][3]string // key, reason, position
	emitted      []string
	emittedOrder []string
	curPure      bool
	usedMono     bool
	lifted       []string
	liftN        int
	mutates      map[string]int // 0 unknown, 1 no, 2 yes, 3 in progress
	mOracles     []string       // function-valued oracles: "name : type" in order of first use
	mOracleSeen  map[string]bool
}

func funcKey(fd *ast.FuncDecl) string {
	if fd.Recv == nil || len(fd.Recv.List) == 0 {
		return fd.Name.Name
	}
	t := fd.Recv.List[0].Type
	if s, ok := t.(*ast.StarExpr); ok {
		t = s.X
	}
	if id, ok := t.(*ast.Ident); ok {
		return id.Name + "." + fd.Name.Name
	}
	return "?." + fd.Name.Name
}

func newTranslator(l *loaded) *translator {
	t := &translator{l: l, decls: map[string]*ast.FuncDecl{}, sigs: map[string]*fnSig{}, structs: map[string]*structInfo{}}
	for _, f := range l.files {
		for _, d := range f.Decls {
			if fd, ok := d.(*ast.FuncDecl); ok && fd.Body != nil {
				t.decls[funcKey(fd)] = fd
			}
		}
	}
	return t
}

// ---- records ----

func (t *translator) needStruct(name string) *structInfo {
	if s, ok := t.structs[name]; ok {
		return s
	}
	if opaqueTypes[name] {
		s := &structInfo{name: name}
		t.structs[name] = s
		t.order = append(t.order, "opaque:"+name)
		t.registerOpaque(name)
		return s
	}
	obj := t.l.pkg.Scope().Lookup(name)
	if obj == nil {
		t.fail(nil, "unknown struct %s", name)
	}
	st, ok := obj.Type().Underlying().(*types.Struct)
	if !ok {
		t.fail(nil, "%s is not a struct", name)
	}
	s := &structInfo{name: name}
	t.structs[name] = s // before the fields (recursive mention is not supported anyway)
	for i := 0; i < st.NumFields(); i++ {
		f := st.Field(i)
		ti := classify(f.Type())
		if f.Name() == "_" {
			s.skipped = append(s.skipped, "_")
			continue
		}
		if _, isI := f.Type().Underlying().(*types.Interface); f.Embedded() && isI {
			s.skipped = append(s.skipped, f.Name())
			continue
		}
		switch ti.k {
		case kUint, kSint, kBool, kBytes, kString, kFloat:
			s.fields = append(s.fields, fieldInfo{f.Name(), ti})
		case kList:
			if ti.elem.k == kStruct {
				t.needStruct(ti.elem.name)
			}
			if ti.elem.k == kIface {
				t.needIface(ti.elem.name)
			}
			s.fields = append(s.fields, fieldInfo{f.Name(), ti})
		case kStruct:
			if _, isPtr := f.Type().Underlying().(*types.Pointer); isPtr {
				s.skipped = append(s.skipped, f.Name())
			} else {
				t.needStruct(ti.name)
				s.fields = append(s.fields, fieldInfo{f.Name(), ti})
			}
		default:
			s.skipped = append(s.skipped, f.Name())
		}
	}
	t.order = append(t.order, name)
	return s
}

func namedName(ty types.Type) string {
	if p, ok := ty.Underlying().(*types.Pointer); ok {
		ty = p.Elem()
	}
	if p, ok := ty.(*types.Pointer); ok {
		ty = p.Elem()
	}
	if n, ok := ty.(*types.Named); ok {
		return n.Obj().Name()
	}
	return ""
}

// memberTy: the rendering of a member type of a sum (a struct record, an opaque type, or e.g. bytes for RawPacket)
func (t *translator) memberTy(m string) tyInfo {
	if opaqueTypes[m] {
		return tyInfo{k: kStruct, name: m}
	}
	obj := t.l.pkg.Scope().Lookup(m)
	if obj == nil {
		t.fail(nil, "unknown member type %s", m)
	}
	return classify(obj.Type())
}

func (t *translator) registerOpaque(name string) {
	if _, done := t.sigs[name+".Marshal"]; done {
		return
	}
	bytesTy := tyInfo{k: kBytes}
	zl := tyInfo{k: kSint}
	t.sigs[name+".Marshal"] = &fnSig{key: name + ".Marshal", coq: "GoOpaque." + name + "_Marshal", hasRecv: true, recvTy: name, recvCoq: name, hasErr: true, nres: 1, resTy: []tyInfo{bytesTy}}
	t.sigs[name+".Unmarshal"] = &fnSig{key: name + ".Unmarshal", coq: "GoOpaque." + name + "_Unmarshal", hasRecv: true, ptrRecv: true, recvTy: name, recvCoq: name, hasErr: true}
	t.sigs[name+".MarshalSize"] = &fnSig{key: name + ".MarshalSize", coq: "GoOpaque." + name + "_MarshalSize", hasRecv: true, recvTy: name, recvCoq: name, pure: true, nres: 1, resTy: []tyInfo{zl}}
	t.sigs[name+".DestinationSSRC"] = &fnSig{key: name + ".DestinationSSRC", coq: "GoOpaque." + name + "_DestinationSSRC", hasRecv: true, recvTy: name, recvCoq: name, pure: true, nres: 1, resTy: []tyInfo{{k: kList, elem: &zl}}}
}

func (t *translator) needIface(name string) {
	for _, o := range t.order {
		if o == "iface:"+name {
			return
		}
	}
	for _, m := range ifaceSums[name] {
		if mt := t.memberTy(m); mt.k == kStruct {
			t.needStruct(m)
		}
	}
	t.order = append(t.order, "iface:"+name)
}

func coqTy(ti tyInfo) string {
	switch ti.k {
	case kUint, kSint, kFloat:
		return "Z"
	case kBool:
		return "bool"
	case kBytes, kString:
		return "bytes"
	case kStruct:
		return ti.name
	case kList:
		return "(list " + coqTy(*ti.elem) + ")"
	case kIface:
		return ti.name
	case kMap:
		return "(list (Z * Z))"
	}
	return "unit"
}

func (t *translator) zero(ti tyInfo) string {
	switch ti.k {
	case kUint, kSint, kFloat:
		return "0"
	case kBool:
		return "false"
	case kBytes, kList, kString, kMap:
		return "[]"
	case kIface:
		t.needIface(ti.name)
		return ti.name + "_nil"
	case kStruct:
		s := t.needStruct(ti.name)
		if opaqueTypes[ti.name] {
			return "zero_" + ti.name
		}
		parts := []string{"mk" + s.name}
		for _, f := range s.fields {
			parts = append(parts, t.zero(f.ty))
		}
		return "(" + strings.Join(parts, " ") + ")"
	}
	return "tt"
}

func (t *translator) emitStructs(b *bytes.Buffer) {
	for _, name := range t.order {
		if strings.HasPrefix(name, "iface:") {
			in := strings.TrimPrefix(name, "iface:")
			fmt.Fprintf(b, "(* interface %s as the closed sum of the concrete types the library stores in it *)\nInductive %s :=", in, in)
			for _, m := range ifaceSums[in] {
				fmt.Fprintf(b, "\n  | %s_%s (x : %s)", in, m, coqTy(t.memberTy(m)))
			}
			fmt.Fprintf(b, "\n  | %s_nil.\n\n", in)
			continue
		}
		if strings.HasPrefix(name, "opaque:") {
			on := strings.TrimPrefix(name, "opaque:")
			fmt.Fprintf(b, "(* %s: outside the translated fragment; values and methods are those of Lib/GoOpaque.v *)\nDefinition %s := GoOpaque.%s.\nDefinition zero_%s : %s := GoOpaque.zero_%s.\n\n", on, on, on, on, on, on)
			continue
		}
		s := t.structs[name]
		fmt.Fprintf(b, "Record %s := mk%s {", s.name, s.name)
		for i, f := range s.fields {
			if i > 0 {
				b.WriteString(";")
			}
			fmt.Fprintf(b, " %s_%s : %s", s.name, f.name, coqTy(f.ty))
		}
		b.WriteString(" }.\n")
		if len(s.skipped) > 0 {
			fmt.Fprintf(b, "(* fields of %s outside the fragment (not represented): %s *)\n", s.name, strings.Join(s.skipped, ", "))
		}
		for i, f := range s.fields {
			fmt.Fprintf(b, "Definition set_%s_%s (x : %s) (s : %s) : %s := mk%s", s.name, f.name, coqTy(f.ty), s.name, s.name, s.name)
			for j, g := range s.fields {
				if i == j {
					b.WriteString(" x")
				} else {
					fmt.Fprintf(b, " (%s_%s s)", s.name, g.name)
				}
			}
			b.WriteString(".\n")
		}
		b.WriteString("\n")
	}
}

// ---- per-function context ----

type view struct {
	base types.Object
	off  string
	lim  string // length of the view when it was cut with an upper bound, "" = to the end of the buffer
}

type ctx struct {
	t       *translator
	fd      *ast.FuncDecl
	sig     *fnSig
	vars    map[types.Object]string
	errs    map[types.Object]int // 1 nil, 2 non-nil
	owned   map[types.Object]bool
	views   map[types.Object]view
	poison  map[types.Object]bool
	counter map[string]int
	pending []string // "let* x := m in"
	recv    types.Object
	results []types.Object // named results
	depth   int
	resTy   string
	resRaw  string // result type without the res monad
	direct  bool   // inside a direct-style (nested) loop: a return is `Ok (inr v)`
	loops   []loopInfo
	aliases map[types.Object]alias // an interface or pointer variable that refers to another local's struct
	dyn     map[types.Object]bool  // error variables declared with `var`: a bool "is non-nil" at run time
	oracles *oracleSet
	cb      types.Object // callback parameter of the function being translated
	cbName  string
	cbSt    types.Object   // synthetic variable: the callback's state, threaded through the function
	inout   []types.Object // byte-slice parameters the function writes (returned to the caller, which binds them back)
	closure []types.Object // translating a function literal: the captured variables it assigns (its state)
}

type oracleSet struct {
	bySite map[*ast.CallExpr]string
	order  []string
}

type alias struct {
	target types.Object
	ctor   string // constructor of the sum when the alias is an interface value, "" for a plain pointer
}

type loopInfo struct {
	onContinue func(*ctx) string
	onBreak    func(*ctx) string
}

func (c *ctx) clone() *ctx {
	d := *c
	d.vars = map[types.Object]string{}
	for k, v := range c.vars {
		d.vars[k] = v
	}
	d.errs = map[types.Object]int{}
	for k, v := range c.errs {
		d.errs[k] = v
	}
	d.owned = map[types.Object]bool{}
	for k, v := range c.owned {
		d.owned[k] = v
	}
	d.views = map[types.Object]view{}
	for k, v := range c.views {
		d.views[k] = v
	}
	d.poison = map[types.Object]bool{}
	for k, v := range c.poison {
		d.poison[k] = v
	}
	d.aliases = map[types.Object]alias{}
	for k, v := range c.aliases {
		d.aliases[k] = v
	}
	// the counter is shared on purpose: names stay unique across the duplicated continuations
	d.pending = nil
	return &d
}

func (c *ctx) fresh(base string) string {
	c.counter[base]++
	if c.counter[base] == 1 {
		return "v_" + base
	}
	return fmt.Sprintf("v_%s_%d", base, c.counter[base]-1)
}

func (c *ctx) tmp() string { return c.fresh("t") }

func (c *ctx) bind(m string) string {
	c.t.usedMono = true
	n := c.tmp()
	c.pending = append(c.pending, fmt.Sprintf("let* %s := %s in", n, m))
	return n
}

func (c *ctx) bindAs(name, m string) {
	c.t.usedMono = true
	c.pending = append(c.pending, fmt.Sprintf("let* %s := %s in", name, m))
}

func (c *ctx) take() []string {
	p := c.pending
	c.pending = nil
	return p
}

func ind(n int) string { return strings.Repeat("  ", n) }

func wrap(binds []string, body string, depth int) string {
	var b strings.Builder
	for _, x := range binds {
		b.WriteString(ind(depth) + x + "\n")
	}
	b.WriteString(body)
	return b.String()
}

func (c *ctx) typeOf(e ast.Expr) tyInfo { return classify(c.t.l.info.TypeOf(e)) }

func zlit(v constant.Value) string {
	s := v.ExactString()
	if strings.HasPrefix(s, "-") {
		return "(" + s + ")"
	}
	return s
}

func (c *ctx) wrapTo(ti tyInfo, x string) string {
	switch {
	case ti.k == kUint:
		return fmt.Sprintf("(uwrap %d %s)", ti.width, x)
	case ti.k == kSint && ti.width > 0:
		return fmt.Sprintf("(swrap %d %s)", ti.width, x)
	}
	return x
}

func (c *ctx) objOf(id *ast.Ident) types.Object {
	if o := c.t.l.info.Uses[id]; o != nil {
		return o
	}
	return c.t.l.info.Defs[id]
}

// lvalue root: identifier naming a local variable / receiver, possibly behind * or parentheses
func (c *ctx) rootIdent(e ast.Expr) *ast.Ident {
	for {
		switch x := e.(type) {
		case *ast.ParenExpr:
			e = x.X
		case *ast.StarExpr:
			e = x.X
		case *ast.Ident:
			return x
		default:
			return nil
		}
	}
}

func (c *ctx) varName(id *ast.Ident) string {
	o := c.objOf(id)
	if o == nil {
		c.t.fail(id, "unresolved identifier %s", id.Name)
	}
	if c.poison[o] {
		c.t.fail(id, "%s is read after a call that returned an error (its value is not modelled)", id.Name)
	}
	if v, ok := c.views[o]; ok {
		return c.viewValue(v)
	}
	if a, ok := c.aliases[o]; ok {
		tn, ok := c.vars[a.target]
		if !ok || c.poison[a.target] {
			c.t.fail(id, "%s refers to a value that is no longer available", id.Name)
		}
		if a.ctor != "" {
			return fmt.Sprintf("(%s %s)", a.ctor, tn)
		}
		return tn
	}
	if n, ok := c.vars[o]; ok {
		return n
	}
	c.t.fail(id, "identifier %s is not a local variable, parameter or constant of the fragment", id.Name)
	return ""
}

func isBigEndian(e ast.Expr) (string, bool) {
	sel, ok := e.(*ast.SelectorExpr)
	if !ok {
		return "", false
	}
	in, ok := sel.X.(*ast.SelectorExpr)
	if !ok {
		return "", false
	}
	p, ok := in.X.(*ast.Ident)
	if !ok || p.Name != "binary" || in.Sel.Name != "BigEndian" {
		return "", false
	}
	return sel.Sel.Name, true
}

func beWidth(name string) (int, bool, bool) { // bytes, isPut, ok
	switch name {
	case "Uint16":
		return 2, false, true
	case "Uint32":
		return 4, false, true
	case "Uint64":
		return 8, false, true
	case "PutUint16":
		return 2, true, true
	case "PutUint32":
		return 4, true, true
	case "PutUint64":
		return 8, true, true
	}
	return 0, false, false
}

// callee resolves a call to a translated function: its signature, the receiver expression (nil for functions)
func (c *ctx) callee(call *ast.CallExpr) (*fnSig, ast.Expr) {
	switch f := call.Fun.(type) {
	case *ast.Ident:
		if o, ok := c.objOf(f).(*types.Func); ok && o.Pkg() == c.t.l.pkg {
			if s, ok := c.t.sigs[f.Name]; ok {
				return s, nil
			}
			c.t.fail(call, "call of %s, which is not (yet) translated", f.Name)
		}
	case *ast.SelectorExpr:
		if o, ok := c.objOf(f.Sel).(*types.Func); ok && o.Pkg() == c.t.l.pkg {
			rt := classify(c.t.l.info.TypeOf(f.X))
			name := rt.name
			if name == "" {
				name = namedName(c.t.l.info.TypeOf(f.X))
			}
			key := name + "." + f.Sel.Name
			if oracleMethods[key] {
				return &fnSig{key: key, coq: "o_" + f.Sel.Name, hasErr: true, ptrRecv: true, hasRecv: true, oracleM: true}, f.X
			}
			if s, ok := c.t.sigs[key]; ok {
				return s, f.X
			}
			if rt.k == kIface {
				return c.t.ifaceDispatch(call, rt.name, f.Sel.Name), f.X
			}
			c.t.fail(call, "call of %s, which is not (yet) translated", key)
		}
	}
	return nil, nil
}

// ifaceDispatch emits `I_M (x : I) args : res .. := match x with I_A a => A_M a args | ... | I_nil => Panic end`.
// A method with a pointer receiver that writes it (Unmarshal) returns the updated sum value.
func (t *translator) ifaceDispatch(n ast.Node, iface, method string) *fnSig {
	t.needIface(iface)
	var first *fnSig
	type armT struct {
		m  string
		sg *fnSig
	}
	var arms []armT
	anyPtr := false
	for _, m := range ifaceSums[iface] {
		sg, ok := t.sigs[m+"."+method]
		if !ok {
			t.fail(n, "call of %s through %s: %s.%s is not (yet) translated", method, iface, m, method)
		}
		if first == nil {
			first = sg
		} else if first.hasErr != sg.hasErr || first.nres != sg.nres || (first.ptrRecv != sg.ptrRecv && (sg.nres != 0 || sg.hasErr)) {
			t.fail(n, "methods %s of the members of %s have different shapes", method, iface)
		}
		anyPtr = anyPtr || sg.ptrRecv
		if sg.ptrRecv && sg.nres != 0 {
			t.fail(n, "%s.%s updates its receiver and returns values", m, method)
		}
		arms = append(arms, armT{m, sg})
	}
	var ps, as []string
	var fd *ast.FuncDecl
	for _, m := range ifaceSums[iface] {
		if d, ok := t.decls[m+"."+method]; ok {
			fd = d
			break
		}
	}
	if fd == nil {
		t.fail(n, "no declaration of %s among the members of %s", method, iface)
	}
	for _, p := range fd.Type.Params.List {
		ti := classify(t.l.info.TypeOf(p.Type))
		for i := range p.Names {
			nm := fmt.Sprintf("a%d_%d", len(ps), i)
			ps = append(ps, fmt.Sprintf("(%s : %s)", nm, coqTy(ti)))
			as = append(as, nm)
		}
	}
	argstr := ""
	if len(as) > 0 {
		argstr = " " + strings.Join(as, " ")
	}
	var body strings.Builder
	for _, a := range arms {
		call := fmt.Sprintf("%s a%s", a.sg.coq, argstr)
		switch {
		case a.sg.ptrRecv && a.sg.pure:
			call = fmt.Sprintf("Ok (%s_%s (%s))", iface, a.m, call)
		case a.sg.ptrRecv:
			call = fmt.Sprintf("res_map %s_%s (%s)", iface, a.m, call)
		case anyPtr && a.sg.pure:
			// this member's method does not write its receiver (others do): the value is unchanged
			call = fmt.Sprintf("Ok (%s_%s a)", iface, a.m)
		case anyPtr:
			call = fmt.Sprintf("res_map (fun _ => %s_%s a) (%s)", iface, a.m, call)
		case a.sg.pure:
			call = "Ok (" + call + ")"
		}
		fmt.Fprintf(&body, "  | %s_%s a => %s\n", iface, a.m, call)
	}
	sig := *first
	sig.ptrRecv = anyPtr
	sig.key = iface + "." + method
	sig.coq = iface + "_" + method
	sig.recvTy = iface
	sig.recvCoq = iface
	sig.pure = false
	sig.hasRecv = true
	pstr := ""
	if len(ps) > 0 {
		pstr = " " + strings.Join(ps, " ")
	}
	fmt.Fprintf(&t.body, "(* dynamic dispatch of %s.%s over the members of the sum (a nil interface value panics) *)\nDefinition %s (x : %s)%s :=\n  match x with\n%s  | %s_nil => Panic\n  end.\n\n",
		iface, method, sig.coq, iface, pstr, body.String(), iface)
	t.sigs[sig.key] = &sig
	return &sig
}

func (c *ctx) args(call *ast.CallExpr, recv ast.Expr) string {
	if sg, _ := c.calleeQuiet(call); sg != nil && sg.noracles > 0 {
		c.t.fail(call, "call of %s, whose translation takes oracle parameters", sg.key)
	}
	var parts []string
	if recv != nil {
		parts = append(parts, c.expr(recv))
	}
	for _, a := range call.Args {
		parts = append(parts, c.expr(a))
	}
	return strings.Join(parts, " ")
}

// exprAs: e used where a value of type [to] is expected (injects a concrete struct into an interface sum)
func (c *ctx) exprAs(e ast.Expr, to tyInfo) string {
	if to.k == kIface {
		if id, isId := e.(*ast.Ident); isId && id.Name == "nil" {
			c.t.needIface(to.name)
			return to.name + "_nil"
		}
		from := c.typeOf(e)
		if from.k != kIface {
			fn := namedName(c.t.l.info.TypeOf(e))
			ok := false
			for _, m := range ifaceSums[to.name] {
				if m == fn {
					ok = true
				}
			}
			if !ok {
				c.t.fail(e, "%s stored in %s (not one of the concrete types of the sum)", fn, to.name)
			}
			c.t.needIface(to.name)
			return fmt.Sprintf("(%s_%s %s)", to.name, fn, c.expr(e))
		}
	}
	if id, isId := e.(*ast.Ident); isId && id.Name == "nil" && (to.k == kList || to.k == kBytes || to.k == kString) {
		return "[]"
	}
	return c.expr(e)
}

// expr: a pure Gallina term; impure sub-terms are hoisted into c.pending in evaluation order
func (c *ctx) expr(e ast.Expr) string {
	info := c.t.l.info
	if tv, ok := info.Types[e]; ok && tv.Value != nil {
		if classify(tv.Type).k == kFloat {
			// a float32 constant: its bit pattern (the conversion of the constant to float32 is done here, by Go's own rules)
			f, _ := constant.Float32Val(constant.ToFloat(tv.Value))
			return fmt.Sprintf("%d", math.Float32bits(f))
		}
		switch tv.Value.Kind() {
		case constant.Int:
			return zlit(tv.Value)
		case constant.Bool:
			if constant.BoolVal(tv.Value) {
				return "true"
			}
			return "false"
		case constant.String:
			sv := constant.StringVal(tv.Value)
			if sv == "" {
				return "[]"
			}
			for _, ch := range sv {
				if ch < 32 || ch > 126 || ch == '"' {
					c.t.fail(e, "string constant with characters outside printable ASCII")
				}
			}
			return fmt.Sprintf("(list_byte_of_string %s)", coqString(sv))
		case constant.Float:
			if i, ok := constant.Int64Val(constant.ToInt(tv.Value)); ok {
				return zlit(constant.MakeInt64(i))
			}
		}
		c.t.fail(e, "constant of unsupported kind")
	}
	switch x := e.(type) {
	case *ast.ParenExpr:
		return c.expr(x.X)
	case *ast.Ident:
		return c.varName(x)
	case *ast.StarExpr:
		return c.expr(x.X)
	case *ast.SelectorExpr:
		ti := classify(info.TypeOf(x.X))
		if ti.k == kStruct {
			s := c.t.needStruct(ti.name)
			for _, f := range s.fields {
				if f.name == x.Sel.Name {
					return fmt.Sprintf("(%s_%s %s)", s.name, f.name, c.expr(x.X))
				}
			}
			c.t.fail(x, "field %s.%s is outside the fragment", ti.name, x.Sel.Name)
		}
		c.t.fail(x, "selector %s.%s", types.ExprString(x.X), x.Sel.Name)
	case *ast.IndexExpr:
		if c.typeOf(x.X).k == kMap {
			return fmt.Sprintf("(gmapget %s %s)", c.expr(x.X), c.expr(x.Index))
		}
		if c.typeOf(x.X).k == kList {
			l := c.expr(x.X)
			return c.bind(fmt.Sprintf("gnth %s %s", l, c.expr(x.Index)))
		}
		if k := c.typeOf(x.X).k; k != kBytes && k != kString {
			c.t.fail(x, "index into something that is not a byte slice or a list")
		}
		if id := c.rootIdent(x.X); id != nil {
			if v, ok := c.views[c.objOf(id)]; ok {
				if v.lim != "" {
					c.t.fail(x, "index through a view with an upper bound")
				}
				return c.bind(fmt.Sprintf("gidx_v %s %s %s", c.vars[v.base], v.off, c.expr(x.Index)))
			}
		}
		b := c.expr(x.X)
		i := c.expr(x.Index)
		return c.bind(fmt.Sprintf("gidx %s %s", b, i))
	case *ast.SliceExpr:
		if c.typeOf(x.X).k == kList && !x.Slice3 {
			l := c.expr(x.X)
			lo, hi := "0", fmt.Sprintf("(glenl %s)", l)
			if x.Low != nil {
				lo = c.expr(x.Low)
			}
			if x.High != nil {
				hi = c.expr(x.High)
			}
			return c.bind(fmt.Sprintf("gslicel %s %s %s", l, lo, hi))
		}
		if k := c.typeOf(x.X).k; x.Slice3 || (k != kBytes && k != kString) {
			c.t.fail(x, "slice expression outside the fragment")
		}
		if id := c.rootIdent(x.X); id != nil {
			if v, ok := c.views[c.objOf(id)]; ok {
				// a value read through a view: the current content of the underlying buffer
				bb := c.viewValue(v)
				switch {
				case x.Low != nil && x.High != nil:
					return c.bind(fmt.Sprintf("gslice %s %s %s", bb, c.expr(x.Low), c.expr(x.High)))
				case x.Low != nil:
					return c.bind(fmt.Sprintf("gslice_from %s %s", bb, c.expr(x.Low)))
				case x.High != nil:
					return c.bind(fmt.Sprintf("gslice_to %s %s", bb, c.expr(x.High)))
				}
				return bb
			}
		}
		b := c.expr(x.X)
		switch {
		case x.Low != nil && x.High != nil:
			return c.bind(fmt.Sprintf("gslice %s %s %s", b, c.expr(x.Low), c.expr(x.High)))
		case x.Low != nil:
			return c.bind(fmt.Sprintf("gslice_from %s %s", b, c.expr(x.Low)))
		case x.High != nil:
			return c.bind(fmt.Sprintf("gslice_to %s %s", b, c.expr(x.High)))
		}
		return b
	case *ast.UnaryExpr:
		ti := c.typeOf(e)
		switch x.Op {
		case token.NOT:
			return fmt.Sprintf("(negb %s)", c.expr(x.X))
		case token.SUB:
			return c.wrapTo(ti, fmt.Sprintf("(- %s)", c.expr(x.X)))
		case token.ADD:
			return c.expr(x.X)
		case token.XOR:
			if ti.k == kUint {
				return fmt.Sprintf("(unot %d %s)", ti.width, c.expr(x.X))
			}
			return fmt.Sprintf("(- %s - 1)", c.expr(x.X))
		case token.AND:
			// &T{...} / &x : pointers to structs are modelled by the struct value
			return c.expr(x.X)
		}
		c.t.fail(x, "unary operator %s", x.Op)
	case *ast.BinaryExpr:
		return c.binary(x)
	case *ast.CallExpr:
		return c.call(x)
	case *ast.CompositeLit:
		ti := c.typeOf(e)
		if ti.k == kMap {
			var parts []string
			for _, el := range x.Elts {
				kv, ok := el.(*ast.KeyValueExpr)
				if !ok {
					c.t.fail(x, "map literal element")
				}
				parts = append(parts, fmt.Sprintf("(%s, %s)", c.expr(kv.Key), c.expr(kv.Value)))
			}
			return "[" + strings.Join(parts, "; ") + "]"
		}
		if ti.k == kList {
			var parts []string
			for _, el := range x.Elts {
				if _, isKV := el.(*ast.KeyValueExpr); isKV {
					c.t.fail(x, "keyed slice literal")
				}
				parts = append(parts, c.exprAs(el, *ti.elem))
			}
			return "[" + strings.Join(parts, "; ") + "]"
		}
		if ti.k == kBytes {
			var parts []string
			for _, el := range x.Elts {
				if _, isKV := el.(*ast.KeyValueExpr); isKV {
					c.t.fail(x, "keyed slice literal")
				}
				parts = append(parts, fmt.Sprintf("byte_of_Z %s", c.expr(el)))
			}
			return "[" + strings.Join(parts, "; ") + "]"
		}
		if ti.k != kStruct {
			c.t.fail(x, "composite literal of a non-struct type")
		}
		s := c.t.needStruct(ti.name)
		vals := map[string]string{}
		for i, el := range x.Elts {
			if kv, ok := el.(*ast.KeyValueExpr); ok {
				vals[kv.Key.(*ast.Ident).Name] = c.expr(kv.Value)
			} else {
				st := info.TypeOf(e).Underlying().(*types.Struct)
				vals[st.Field(i).Name()] = c.expr(el)
			}
		}
		parts := []string{"mk" + s.name}
		seen := 0
		for _, f := range s.fields {
			if v, ok := vals[f.name]; ok {
				parts = append(parts, v)
				seen++
			} else {
				parts = append(parts, c.t.zero(f.ty))
			}
		}
		if seen != len(vals) {
			c.t.fail(x, "composite literal sets a field outside the fragment")
		}
		return "(" + strings.Join(parts, " ") + ")"
	}
	c.t.fail(e, "expression form %T", e)
	return ""
}

func (c *ctx) binary(x *ast.BinaryExpr) string {
	ti := c.typeOf(x)
	op := x.Op
	// short-circuit operators: the right operand may be impure
	if op == token.LAND || op == token.LOR {
		a := c.expr(x.X)
		sub := c.clone()
		sub.counter = c.counter
		b := sub.expr(x.Y)
		if len(sub.pending) == 0 {
			if op == token.LAND {
				return fmt.Sprintf("(%s && %s)", a, b)
			}
			return fmt.Sprintf("(%s || %s)", a, b)
		}
		inner := wrap(sub.take(), fmt.Sprintf("Ok %s", b), 0)
		inner = strings.ReplaceAll(inner, "\n", " ")
		if op == token.LAND {
			return c.bind(fmt.Sprintf("(if %s then (%s) else Ok false)", a, inner))
		}
		return c.bind(fmt.Sprintf("(if %s then Ok true else (%s))", a, inner))
	}
	lt := c.typeOf(x.X)
	if lt.k == kError && (op == token.EQL || op == token.NEQ) {
		if id, ok := x.X.(*ast.Ident); ok && c.dyn[c.objOf(id)] {
			if y, ok := x.Y.(*ast.Ident); ok && y.Name == "nil" {
				if op == token.NEQ {
					return c.vars[c.objOf(id)]
				}
				return fmt.Sprintf("(negb %s)", c.vars[c.objOf(id)])
			}
		}
		c.t.fail(x, "comparison of error values")
	}
	if lt.k == kFloat {
		a := c.expr(x.X)
		switch op {
		case token.LSS:
			return fmt.Sprintf("(gf32_ltb %s %s)", a, c.expr(x.Y))
		case token.LEQ:
			return fmt.Sprintf("(gf32_leb %s %s)", a, c.expr(x.Y))
		case token.GTR:
			return fmt.Sprintf("(gf32_ltb %s %s)", c.expr(x.Y), a)
		case token.GEQ:
			return fmt.Sprintf("(gf32_leb %s %s)", c.expr(x.Y), a)
		case token.QUO:
			// division by a constant power of two 2^k, k >= 0: a scaling, exact unless the result is subnormal
			if tv, ok := c.t.l.info.Types[x.Y]; ok && tv.Value != nil {
				if iv, exact := constant.Int64Val(constant.ToInt(tv.Value)); exact && iv > 0 && iv&(iv-1) == 0 {
					k := 0
					for ; iv > 1; iv >>= 1 {
						k++
					}
					return fmt.Sprintf("(gf32_scale %s (- %d))", a, k)
				}
			}
		}
		c.t.fail(x, "float32 operation %s in this form", op)
	}
	a := c.expr(x.X)
	b := c.expr(x.Y)
	switch op {
	case token.ADD:
		return c.wrapTo(ti, fmt.Sprintf("(%s + %s)", a, b))
	case token.SUB:
		return c.wrapTo(ti, fmt.Sprintf("(%s - %s)", a, b))
	case token.MUL:
		return c.wrapTo(ti, fmt.Sprintf("(%s * %s)", a, b))
	case token.QUO, token.REM:
		fn := map[bool]map[token.Token]string{true: {token.QUO: "gdiv_s", token.REM: "gmod_s"}, false: {token.QUO: "gdiv_u", token.REM: "gmod_u"}}[ti.k == kSint][op]
		if tv, ok := c.t.l.info.Types[x.Y]; ok && tv.Value != nil && constant.Sign(tv.Value) != 0 {
			// constant non-zero divisor: no panic possible
			switch fn {
			case "gdiv_u":
				return fmt.Sprintf("(%s / %s)", a, b)
			case "gmod_u":
				return fmt.Sprintf("(%s mod %s)", a, b)
			case "gdiv_s":
				return c.wrapTo(ti, fmt.Sprintf("(Z.quot %s %s)", a, b))
			default:
				return fmt.Sprintf("(Z.rem %s %s)", a, b)
			}
		}
		return c.bind(fmt.Sprintf("%s %s %s", fn, a, b))
	case token.AND:
		return fmt.Sprintf("(Z.land %s %s)", a, b)
	case token.OR:
		return fmt.Sprintf("(Z.lor %s %s)", a, b)
	case token.XOR:
		return fmt.Sprintf("(Z.lxor %s %s)", a, b)
	case token.AND_NOT:
		return fmt.Sprintf("(Z.ldiff %s %s)", a, b)
	case token.SHL, token.SHR:
		if st := c.typeOf(x.Y); st.k != kUint {
			if tv, ok := c.t.l.info.Types[x.Y]; !ok || tv.Value == nil || constant.Sign(tv.Value) < 0 {
				c.t.fail(x, "shift by a signed, non-constant count")
			}
		}
		if op == token.SHL {
			return c.wrapTo(ti, fmt.Sprintf("(gshl %s %s)", a, b))
		}
		return fmt.Sprintf("(gshr %s %s)", a, b)
	case token.EQL, token.NEQ:
		var eq string
		if lt.k == kError {
			if id, ok := x.X.(*ast.Ident); ok && c.dyn[c.objOf(id)] {
				if y, ok := x.Y.(*ast.Ident); ok && y.Name == "nil" {
					if op == token.NEQ {
						return c.vars[c.objOf(id)]
					}
					return fmt.Sprintf("(negb %s)", c.vars[c.objOf(id)])
				}
			}
			c.t.fail(x, "comparison of error values")
		}
		switch lt.k {
		case kUint, kSint:
			eq = fmt.Sprintf("(%s =? %s)", a, b)
		case kBool:
			eq = fmt.Sprintf("(Bool.eqb %s %s)", a, b)
		case kString:
			eq = fmt.Sprintf("(bytes_eqb %s %s)", a, b)
		default:
			c.t.fail(x, "comparison of values outside the fragment")
		}
		if op == token.NEQ {
			return fmt.Sprintf("(negb %s)", eq)
		}
		return eq
	case token.LSS:
		return fmt.Sprintf("(%s <? %s)", a, b)
	case token.LEQ:
		return fmt.Sprintf("(%s <=? %s)", a, b)
	case token.GTR:
		return fmt.Sprintf("(%s <? %s)", b, a)
	case token.GEQ:
		return fmt.Sprintf("(%s <=? %s)", b, a)
	}
	c.t.fail(x, "binary operator %s", op)
	return ""
}

func (c *ctx) call(x *ast.CallExpr) string {
	info := c.t.l.info
	// conversion
	if tv, ok := info.Types[x.Fun]; ok && tv.IsType() {
		if len(x.Args) != 1 {
			c.t.fail(x, "conversion with %d arguments", len(x.Args))
		}
		to := classify(tv.Type)
		from := c.typeOf(x.Args[0])
		if inner := c.floorOfFloat32(x.Args[0]); inner != nil && to.k == kUint && to.width == 64 {
			// uint(math.Floor(float64(x))), x a float32: float32 -> float64 is exact and so is Floor
			return fmt.Sprintf("(gf32_floor_uint %s)", c.expr(inner))
		}
		a := c.expr(x.Args[0])
		switch to.k {
		case kUint:
			if from.k == kUint && from.width <= to.width {
				return a
			}
			return c.wrapTo(to, a)
		case kSint:
			if to.width == 0 {
				return a
			}
			if (from.k == kUint && from.width < to.width) || (from.k == kSint && from.width != 0 && from.width <= to.width) {
				return a
			}
			return c.wrapTo(to, a)
		case kBytes, kString:
			if from.k == kBytes || from.k == kString {
				return a
			}
		case kList:
			if from.k == kList {
				return a
			}
		}
		c.t.fail(x, "conversion to %s", tv.Type)
	}
	// builtins
	if id, ok := x.Fun.(*ast.Ident); ok {
		if _, isB := c.objOf(id).(*types.Builtin); isB {
			switch id.Name {
			case "len":
				if c.typeOf(x.Args[0]).k == kList {
					return fmt.Sprintf("(glenl %s)", c.expr(x.Args[0]))
				}
				if c.typeOf(x.Args[0]).k == kString {
					return fmt.Sprintf("(glen %s)", c.expr(x.Args[0]))
				}
				if c.typeOf(x.Args[0]).k == kBytes {
					if r := c.rootIdent(x.Args[0]); r != nil {
						if v, ok := c.views[c.objOf(r)]; ok {
							if v.lim != "" {
								return v.lim
							}
							return fmt.Sprintf("(glen %s - %s)", c.vars[v.base], v.off)
						}
					}
					return fmt.Sprintf("(glen %s)", c.expr(x.Args[0]))
				}
			case "new":
				nt := classify(info.TypeOf(x.Args[0]))
				if nt.k == kStruct || nt.k == kBytes || nt.k == kList {
					return c.t.zero(nt)
				}
			case "make":
				if classify(info.TypeOf(x.Args[0])).k == kBytes && len(x.Args) == 2 {
					return c.bind(fmt.Sprintf("gmake %s", c.expr(x.Args[1])))
				}
				if mt := classify(info.TypeOf(x.Args[0])); mt.k == kList && len(x.Args) >= 2 {
					// make([]T, n[, cap]): capacity is not observable in the fragment
					return c.bind(fmt.Sprintf("gmakel %s %s", c.t.zero(*mt.elem), c.expr(x.Args[1])))
				}
			case "append":
				if c.typeOf(x.Args[0]).k == kList && len(x.Args) == 2 {
					a := c.expr(x.Args[0])
					if x.Ellipsis.IsValid() {
						return fmt.Sprintf("(%s ++ %s)", a, c.expr(x.Args[1]))
					}
					return fmt.Sprintf("(%s ++ [%s])", a, c.exprAs(x.Args[1], *c.typeOf(x.Args[0]).elem))
				}
				if c.typeOf(x.Args[0]).k == kBytes && len(x.Args) == 2 {
					a := c.expr(x.Args[0])
					if x.Ellipsis.IsValid() {
						return fmt.Sprintf("(gappend %s %s)", a, c.expr(x.Args[1]))
					}
					return fmt.Sprintf("(gappend %s [byte_of_Z %s])", a, c.expr(x.Args[1]))
				}
			}
			c.t.fail(x, "builtin %s in this form", id.Name)
		}
	}
	if id, ok := x.Fun.(*ast.Ident); ok && c.cb != nil && c.objOf(id) == c.cb {
		// f(x): the callback runs on the threaded state
		a := c.exprAs(x.Args[0], *classify(c.cb.Type()).elem)
		st, r := c.fresh("st"), c.tmp()
		c.pending = append(c.pending, fmt.Sprintf("let '(%s, %s) := %s %s %s in", st, r, c.cbName, c.vars[c.cbSt], a))
		c.vars[c.cbSt] = st
		return r
	}
	if se, ok := x.Fun.(*ast.SelectorExpr); ok {
		if pk, ok := se.X.(*ast.Ident); ok {
			if pn, isPkg := c.objOf(pk).(*types.PkgName); isPkg {
				switch pn.Imported().Path() + "." + se.Sel.Name {
				case "math.Float32frombits", "math.Float32bits":
					// a float32 is carried as its bit pattern: both conversions are the identity
					return c.expr(x.Args[0])
				case "bytes.Equal":
					return fmt.Sprintf("(bytes_eqb %s %s)", c.expr(x.Args[0]), c.expr(x.Args[1]))
				}
			}
		}
	}
	if name, ok := isBigEndian(x.Fun); ok {
		if k, put, ok := beWidth(name); ok && !put {
			return c.bind(fmt.Sprintf("gbe_get %d %s", k, c.expr(x.Args[0])))
		}
		c.t.fail(x, "binary.BigEndian.%s as an expression", name)
	}
	if id, ok := x.Fun.(*ast.Ident); ok && oracleFuncs[id.Name] {
		if fo, isF := c.objOf(id).(*types.Func); isF && fo.Pkg() == c.t.l.pkg {
			if n, seen := c.oracles.bySite[x]; seen {
				return n
			}
			n := fmt.Sprintf("o_%s_%d", id.Name, len(c.oracles.order)+1)
			c.oracles.bySite[x] = n
			c.oracles.order = append(c.oracles.order, n)
			return n
		}
	}
	sig, recv := c.callee(x)
	if sig == nil {
		c.t.fail(x, "call of %s (outside the package or the fragment)", types.ExprString(x.Fun))
	}
	if sig.hasErr || sig.ptrRecv || len(sig.inout) > 0 {
		c.t.fail(x, "call of %s in expression position (it returns an error or updates its receiver or an argument)", sig.key)
	}
	code := fmt.Sprintf("(%s %s)", sig.coq, c.args(x, recv))
	if sig.pure {
		return code
	}
	return c.bind(code[1 : len(code)-1])
}

// floorOfFloat32 recognises math.Floor(float64(x)) with x of type float32 and returns x
func (c *ctx) floorOfFloat32(e ast.Expr) ast.Expr {
	call, ok := e.(*ast.CallExpr)
	if !ok || len(call.Args) != 1 {
		return nil
	}
	se, ok := call.Fun.(*ast.SelectorExpr)
	if !ok || se.Sel.Name != "Floor" {
		return nil
	}
	if pk, ok := se.X.(*ast.Ident); !ok {
		return nil
	} else if pn, isPkg := c.objOf(pk).(*types.PkgName); !isPkg || pn.Imported().Path() != "math" {
		return nil
	}
	conv, ok := call.Args[0].(*ast.CallExpr)
	if !ok || len(conv.Args) != 1 {
		return nil
	}
	if tv, ok := c.t.l.info.Types[conv.Fun]; !ok || !tv.IsType() {
		return nil
	} else if b, isB := tv.Type.Underlying().(*types.Basic); !isB || b.Kind() != types.Float64 {
		return nil
	}
	if c.typeOf(conv.Args[0]).k != kFloat {
		return nil
	}
	return conv.Args[0]
}

// ---- statements ----

type kont func(*ctx) string

func (c *ctx) setVar(o types.Object, base, term string, cont kont) string {
	name := c.fresh(base)
	c.vars[o] = name
	delete(c.poison, o)
	binds := c.take()
	return wrap(binds, ind(c.depth)+fmt.Sprintf("let %s := %s in\n", name, term)+cont(c), c.depth)
}

func (c *ctx) setVarM(o types.Object, base, m string, cont kont) string {
	c.t.usedMono = true
	name := c.fresh(base)
	c.vars[o] = name
	delete(c.poison, o)
	binds := c.take()
	return wrap(binds, ind(c.depth)+fmt.Sprintf("let* %s := %s in\n", name, m)+cont(c), c.depth)
}

// viewValue: the current content seen through a view
func (c *ctx) viewValue(v view) string {
	if v.lim != "" {
		return c.bind(fmt.Sprintf("gslice %s %s (%s + %s)", c.vars[v.base], v.off, v.off, v.lim))
	}
	return c.bind(fmt.Sprintf("gslice_from %s %s", c.vars[v.base], v.off))
}

// tryTarget resolves a byte-slice expression to (buffer the function owns, offset): the buffer itself, a view of it,
// or x[lo:] of either.  The slice bounds checks of Go are emitted as binds.
func (c *ctx) tryTarget(e ast.Expr) (types.Object, string, string, bool) {
	switch x := e.(type) {
	case *ast.ParenExpr:
		return c.tryTarget(x.X)
	case *ast.Ident:
		o := c.objOf(x)
		if v, ok := c.views[o]; ok {
			return v.base, v.off, v.lim, true
		}
		if c.owned[o] && classify(o.Type()).k == kBytes {
			return o, "0", "", true
		}
	case *ast.SliceExpr:
		if x.Slice3 {
			return nil, "", "", false
		}
		base, off, lim, ok := c.tryTarget(x.X)
		if !ok || lim != "" {
			return nil, "", "", false
		}
		lo := "0"
		if x.Low != nil {
			lo = c.expr(x.Low)
		}
		add := func(a, b string) string {
			if a == "0" {
				return b
			}
			if b == "0" {
				return a
			}
			return fmt.Sprintf("(%s + %s)", a, b)
		}
		if x.High != nil {
			hi := c.expr(x.High)
			c.bind(fmt.Sprintf("gview2 %s %s %s %s", c.vars[base], off, lo, hi))
			if lo == "0" {
				return base, off, hi, true
			}
			return base, add(off, lo), fmt.Sprintf("(%s - %s)", hi, lo), true
		}
		if tv, isC := c.t.l.info.Types[x.Low]; x.Low != nil && (!isC || tv.Value == nil || constant.Sign(tv.Value) < 0) {
			// a constant non-negative bound is checked by the write itself (gbe_put, gcopy, gupd_v) or by the caller
			c.bind(fmt.Sprintf("gview %s %s %s", c.vars[base], off, lo))
		}
		return base, add(off, lo), "", true
	}
	return nil, "", "", false
}

func (c *ctx) target(e ast.Expr) (types.Object, string, string) {
	base, off, lim, ok := c.tryTarget(e)
	if !ok {
		c.t.fail(e, "write into a byte slice the function did not allocate")
	}
	return base, off, lim
}

// assignTo: store a pure term into an lvalue
func (c *ctx) assignTo(lhs ast.Expr, term string, cont kont) string {
	switch l := lhs.(type) {
	case *ast.Ident:
		if l.Name == "_" {
			return wrap(c.take(), cont(c), c.depth)
		}
		o := c.objOf(l)
		if classify(o.Type()).k == kError && !c.dyn[o] {
			c.t.fail(lhs, "assignment of an error value that is not a call result")
		}
		if a, isAlias := c.aliases[o]; isAlias && a.ctor == "" {
			// a field update or a pointer-method call through a copy of a pointer reaches the struct it points to
			return c.setVar(a.target, a.target.Name(), term, cont)
		}
		delete(c.aliases, o)
		delete(c.views, o)
		delete(c.owned, o)
		return c.setVar(o, l.Name, term, cont)
	case *ast.ParenExpr:
		return c.assignTo(l.X, term, cont)
	case *ast.StarExpr:
		return c.assignTo(l.X, term, cont)
	case *ast.SelectorExpr:
		ti := classify(c.t.l.info.TypeOf(l.X))
		if ti.k != kStruct {
			c.t.fail(lhs, "assignment through a selector on a non-struct")
		}
		s := c.t.needStruct(ti.name)
		ok := false
		for _, f := range s.fields {
			if f.name == l.Sel.Name {
				ok = true
			}
		}
		if !ok {
			c.t.fail(lhs, "assignment to field %s.%s outside the fragment", ti.name, l.Sel.Name)
		}
		inner := c.expr(l.X)
		return c.assignTo(l.X, fmt.Sprintf("(set_%s_%s %s %s)", s.name, l.Sel.Name, term, inner), cont)
	case *ast.IndexExpr:
		if c.typeOf(l.X).k == kList {
			if id, ok := l.X.(*ast.Ident); ok {
				o := c.objOf(id)
				if !c.owned[o] {
					c.t.fail(lhs, "write into a slice the function did not allocate (%s)", id.Name)
				}
				i := c.expr(l.Index)
				return c.setVarM(o, id.Name, fmt.Sprintf("gupdl %s %s %s", c.vars[o], i, term), cont)
			}
			// x.f[i] = v : read the list, update it, store it back
			cur := c.expr(l.X)
			i := c.expr(l.Index)
			nl := c.bind(fmt.Sprintf("gupdl %s %s %s", cur, i, term))
			return c.assignTo(l.X, nl, cont)
		}
		id := c.rootIdent(l.X)
		if id == nil || c.typeOf(l.X).k != kBytes {
			c.t.fail(lhs, "indexed assignment outside the fragment")
		}
		o := c.objOf(id)
		i := c.expr(l.Index)
		if v, ok := c.views[o]; ok && v.lim != "" {
			c.t.fail(lhs, "write through a view with an upper bound")
		}
		if v, ok := c.views[o]; ok {
			return c.setVarM(v.base, v.base.Name(), fmt.Sprintf("gupd_v %s %s %s %s", c.vars[v.base], v.off, i, term), cont)
		}
		if !c.owned[o] {
			c.t.fail(lhs, "write into a byte slice the function did not allocate (%s)", id.Name)
		}
		return c.setVarM(o, id.Name, fmt.Sprintf("gupd %s %s %s", c.vars[o], i, term), cont)
	}
	c.t.fail(lhs, "assignment target %T", lhs)
	return ""
}

var assignOps = map[token.Token]token.Token{
	token.ADD_ASSIGN: token.ADD, token.SUB_ASSIGN: token.SUB, token.MUL_ASSIGN: token.MUL, token.QUO_ASSIGN: token.QUO,
	token.REM_ASSIGN: token.REM, token.AND_ASSIGN: token.AND, token.OR_ASSIGN: token.OR, token.XOR_ASSIGN: token.XOR,
	token.SHL_ASSIGN: token.SHL, token.SHR_ASSIGN: token.SHR, token.AND_NOT_ASSIGN: token.AND_NOT,
}

// matchCall: a call of a translated function that returns an error or updates its (pointer) receiver becomes a match
// on its result; okK continues with the names bound to the non-error results, errK with the error outcome.
func (c *ctx) matchCall(call *ast.CallExpr, sig *fnSig, recv ast.Expr, okK func(d *ctx, names []string) string, errK func(d *ctx) string) string {
	c.t.usedMono = true
	if sig.oracleM {
		return c.matchOracleMethod(call, sig, recv, okK, errK)
	}
	argstr := c.args(call, recv)
	binds := c.take()
	var pat, names []string
	var recvTmp string
	if sig.ptrRecv {
		recvTmp = c.tmp()
		pat = append(pat, recvTmp)
	}
	var ioTmp []string
	var ioArg []ast.Expr
	for _, ix := range sig.inout {
		a := call.Args[ix]
		if id, isId := a.(*ast.Ident); !isId || !c.owned[c.objOf(id)] {
			c.t.fail(call, "argument written by %s is not a buffer the caller allocated", sig.key)
		}
		n := c.tmp()
		pat = append(pat, n)
		ioTmp = append(ioTmp, n)
		ioArg = append(ioArg, a)
	}
	for i := 0; i < sig.nres; i++ {
		n := c.tmp()
		pat = append(pat, n)
		names = append(names, n)
	}
	patStr := "_"
	if len(pat) == 1 {
		patStr = pat[0]
	} else if len(pat) > 1 {
		patStr = "(" + strings.Join(pat, ", ") + ")"
	}
	var b strings.Builder
	b.WriteString(ind(c.depth) + fmt.Sprintf("match %s %s with\n", sig.coq, argstr))
	b.WriteString(ind(c.depth) + fmt.Sprintf("| Ok %s =>\n", patStr))
	d := c.clone()
	d.depth = c.depth + 1
	var bindBack func(i int, d *ctx) string
	bindBack = func(i int, d *ctx) string {
		if i == len(ioTmp) {
			return okK(d, names)
		}
		return d.assignTo(ioArg[i], ioTmp[i], func(d2 *ctx) string { return bindBack(i+1, d2) })
	}
	if sig.ptrRecv {
		b.WriteString(d.assignTo(recv, recvTmp, func(d2 *ctx) string { return bindBack(0, d2) }))
	} else {
		b.WriteString(bindBack(0, d))
	}
	if sig.hasErr {
		e := c.clone()
		e.depth = c.depth + 1
		if sig.ptrRecv {
			if id := e.rootIdent(recv); id != nil {
				e.poison[e.objOf(id)] = true
			}
		}
		for _, a := range ioArg {
			e.poison[e.objOf(a.(*ast.Ident))] = true
		}
		b.WriteString(ind(c.depth) + "| Err =>\n")
		b.WriteString(errK(e))
	} else {
		b.WriteString(ind(c.depth) + "| Err => Err\n")
	}
	b.WriteString(ind(c.depth) + "| Panic => Panic\n")
	b.WriteString(ind(c.depth) + "| Fuel => Fuel\n")
	b.WriteString(ind(c.depth) + "end\n")
	return wrap(binds, b.String(), c.depth)
}

// matchOracleMethod: `recv.m(&lv)` or `recv.m(v)` with m in oracleMethods (see there)
func (c *ctx) matchOracleMethod(call *ast.CallExpr, sig *fnSig, recv ast.Expr, okK func(d *ctx, names []string) string, errK func(d *ctx) string) string {
	if len(call.Args) != 1 {
		c.t.fail(call, "oracle method with %d arguments", len(call.Args))
	}
	lv := call.Args[0]
	if u, ok := lv.(*ast.UnaryExpr); ok && u.Op == token.AND {
		lv = u.X
	}
	ti := c.typeOf(lv)
	var tag string
	switch ti.k {
	case kUint:
		tag = fmt.Sprintf("uint%d", ti.width)
	case kStruct, kIface:
		tag = ti.name
		if ti.k == kStruct {
			c.t.needStruct(ti.name)
		} else {
			c.t.needIface(ti.name)
		}
	default:
		c.t.fail(call, "oracle method on a value of this type")
	}
	rti := c.typeOf(recv)
	if rti.k != kStruct {
		c.t.fail(call, "oracle method on a receiver that is not a struct")
	}
	name := sig.coq + "_" + tag
	if c.t.mOracleSeen == nil {
		c.t.mOracleSeen = map[string]bool{}
	}
	if !c.t.mOracleSeen[name] {
		c.t.mOracleSeen[name] = true
		c.t.mOracles = append(c.t.mOracles, fmt.Sprintf("%s : %s -> %s -> res (%s * %s)", name, rti.name, coqTy(ti), rti.name, coqTy(ti)))
	}
	cur := c.expr(lv)
	rcv := c.expr(recv)
	binds := c.take()
	rt, vt := c.tmp(), c.tmp()
	var b strings.Builder
	b.WriteString(ind(c.depth) + fmt.Sprintf("match %s %s %s with\n", name, rcv, cur))
	b.WriteString(ind(c.depth) + fmt.Sprintf("| Ok (%s, %s) =>\n", rt, vt))
	d := c.clone()
	d.depth = c.depth + 1
	b.WriteString(d.assignTo(recv, rt, func(d2 *ctx) string {
		return d2.assignTo(lv, vt, func(d3 *ctx) string { return okK(d3, nil) })
	}))
	e := c.clone()
	e.depth = c.depth + 1
	for _, x := range []ast.Expr{recv, lv} {
		if id := e.rootIdent(x); id != nil {
			e.poison[e.objOf(id)] = true
		}
	}
	b.WriteString(ind(c.depth) + "| Err =>\n")
	b.WriteString(errK(e))
	b.WriteString(ind(c.depth) + "| Panic => Panic\n")
	b.WriteString(ind(c.depth) + "| Fuel => Fuel\n")
	b.WriteString(ind(c.depth) + "end\n")
	return wrap(binds, b.String(), c.depth)
}

// callStmt: `lhs..., err (:)= f(args)`, `err (:)= f(args)` or a bare call statement
func (c *ctx) callStmt(lhs []ast.Expr, call *ast.CallExpr, sig *fnSig, recv ast.Expr, cont kont) string {
	var errLHS ast.Expr
	if sig.hasErr && len(lhs) > 0 {
		errLHS = lhs[len(lhs)-1]
		lhs = lhs[:len(lhs)-1]
	}
	if len(lhs) != 0 && len(lhs) != sig.nres {
		c.t.fail(call, "assignment count mismatch for %s", sig.key)
	}
	setErr := func(d *ctx, st int) {
		if errLHS != nil {
			if id, ok := errLHS.(*ast.Ident); ok && id.Name != "_" {
				d.errs[d.objOf(id)] = st
			}
		}
	}
	return c.matchCall(call, sig, recv,
		func(d *ctx, names []string) string {
			var chain func(i int, d *ctx) string
			chain = func(i int, d *ctx) string {
				if i == len(lhs) {
					setErr(d, 1)
					return cont(d)
				}
				return d.assignTo(lhs[i], names[i], func(d2 *ctx) string { return chain(i+1, d2) })
			}
			return chain(0, d)
		},
		func(d *ctx) string {
			setErr(d, 2)
			for _, l := range lhs {
				if id, ok := l.(*ast.Ident); ok && id.Name != "_" {
					o := d.objOf(id)
					d.poison[o] = true
					if _, has := d.vars[o]; !has {
						d.vars[o] = "poisoned"
					}
				}
			}
			return cont(d)
		})
}

func (c *ctx) define(lhs ast.Expr) {
	// nothing to do: names are created on assignment
}

func (c *ctx) assign(s *ast.AssignStmt, cont kont) string {
	if op, ok := assignOps[s.Tok]; ok {
		be := &ast.BinaryExpr{X: s.Lhs[0], Op: op, Y: s.Rhs[0], OpPos: s.TokPos}
		// the type of x op= y is the type of x
		c.t.l.info.Types[be] = types.TypeAndValue{Type: c.t.l.info.TypeOf(s.Lhs[0])}
		term := c.expr(be)
		return c.assignTo(s.Lhs[0], term, cont)
	}
	if s.Tok != token.ASSIGN && s.Tok != token.DEFINE {
		c.t.fail(s, "assignment operator %s", s.Tok)
	}
	if len(s.Rhs) == 1 && len(s.Lhs) == 2 {
		if ta, ok := s.Rhs[0].(*ast.TypeAssertExpr); ok && ta.Type != nil {
			return c.commaOk(s, ta, cont)
		}
	}
	if len(s.Rhs) == 1 {
		if call, ok := s.Rhs[0].(*ast.CallExpr); ok {
			if sig, recv := c.calleeOrNil(call); sig != nil && (sig.hasErr || sig.ptrRecv) {
				return c.callStmt(s.Lhs, call, sig, recv, cont)
			}
			if sig, recv := c.calleeOrNil(call); sig != nil && len(s.Lhs) > 1 {
				// several plain results
				var names []string
				for range s.Lhs {
					names = append(names, c.tmp())
				}
				code := fmt.Sprintf("%s %s", sig.coq, c.args(call, recv))
				binds := c.take()
				var chain func(i int, d *ctx) string
				chain = func(i int, d *ctx) string {
					if i == len(s.Lhs) {
						return cont(d)
					}
					return d.assignTo(s.Lhs[i], names[i], func(d2 *ctx) string { return chain(i+1, d2) })
				}
				let := "let"
				if !sig.pure {
					let = "let*"
					c.t.usedMono = true
				}
				return wrap(binds, ind(c.depth)+fmt.Sprintf("%s '(%s) := %s in\n", let, strings.Join(names, ", "), code)+chain(0, c), c.depth)
			}
		}
	}
	if len(s.Lhs) != len(s.Rhs) {
		c.t.fail(s, "assignment with %d targets and %d values", len(s.Lhs), len(s.Rhs))
	}
	if len(s.Lhs) == 1 {
		// owned buffers / lists and views
		if id, ok := s.Lhs[0].(*ast.Ident); ok && id.Name != "_" {
			rk := c.typeOf(s.Rhs[0]).k
			o := c.objOf(id)
			if call, ok := s.Rhs[0].(*ast.CallExpr); ok && (rk == kBytes || rk == kList) {
				if f, ok := call.Fun.(*ast.Ident); ok && f.Name == "make" {
					term := c.expr(s.Rhs[0])
					return c.assignTo(s.Lhs[0], term, func(d *ctx) string { d.owned[o] = true; return cont(d) })
				}
			}
			if sl, ok := s.Rhs[0].(*ast.SliceExpr); ok && rk == kBytes && !sl.Slice3 {
				if base, off, lim, ok := c.tryTarget(s.Rhs[0]); ok {
					c.bind(fmt.Sprintf("gslice_from %s %s", c.vars[base], off))
					c.views[o] = view{base, off, lim}
					c.vars[o] = "view"
					return wrap(c.take(), cont(c), c.depth)
				}
			}
		}
		if lid, ok := s.Lhs[0].(*ast.Ident); ok && lid.Name != "_" && c.dyn[c.objOf(lid)] {
			if isNil, known := c.isErrValue(s.Rhs[0]); known {
				if isNil {
					return c.assignTo(s.Lhs[0], "false", cont)
				}
				return c.assignTo(s.Lhs[0], "true", cont)
			}
			if rid, ok := s.Rhs[0].(*ast.Ident); ok && c.dyn[c.objOf(rid)] {
				return c.assignTo(s.Lhs[0], c.vars[c.objOf(rid)], cont)
			}
			c.t.fail(s, "assignment to an error variable from a value of unknown origin")
		}
		// x = p where p is a local *T: x refers to p's struct from now on (an interface holding the pointer, or a copy of it)
		if lid, ok := s.Lhs[0].(*ast.Ident); ok && lid.Name != "_" {
			if rid, ok := s.Rhs[0].(*ast.Ident); ok {
				lo, ro := c.objOf(lid), c.objOf(rid)
				if ro != nil && lo != nil {
					_, rIsPtr := ro.Type().Underlying().(*types.Pointer)
					lt := classify(lo.Type())
					if _, isLocal := c.vars[ro]; isLocal && rIsPtr && classify(ro.Type()).k == kStruct && (lt.k == kIface || lt.k == kStruct) {
						a := alias{target: ro}
						if prev, chained := c.aliases[ro]; chained {
							a = prev
						}
						if lt.k == kIface {
							c.t.needIface(lt.name)
							a.ctor = lt.name + "_" + classify(ro.Type()).name
							okm := false
							for _, m := range ifaceSums[lt.name] {
								if m == classify(ro.Type()).name {
									okm = true
								}
							}
							if !okm {
								c.t.fail(s, "%s stored in %s", classify(ro.Type()).name, lt.name)
							}
						}
						c.aliases[lo] = a
						c.vars[lo] = "alias"
						return wrap(c.take(), cont(c), c.depth)
					}
				}
			}
		}
		term := c.exprAs(s.Rhs[0], c.typeOf(s.Lhs[0]))
		return c.assignTo(s.Lhs[0], term, cont)
	}
	// parallel assignment: evaluate all right-hand sides first
	var terms []string
	for _, r := range s.Rhs {
		terms = append(terms, c.expr(r))
	}
	var names []string
	binds := c.take()
	var b strings.Builder
	for _, tm := range terms {
		n := c.tmp()
		names = append(names, n)
		b.WriteString(ind(c.depth) + fmt.Sprintf("let %s := %s in\n", n, tm))
	}
	var chain func(i int, d *ctx) string
	chain = func(i int, d *ctx) string {
		if i == len(s.Lhs) {
			return cont(d)
		}
		return d.assignTo(s.Lhs[i], names[i], func(d2 *ctx) string { return chain(i+1, d2) })
	}
	return wrap(binds, b.String()+chain(0, c), c.depth)
}

func (c *ctx) calleeQuiet(call *ast.CallExpr) (sig *fnSig, recv ast.Expr) {
	defer func() {
		if r := recover(); r != nil {
			if _, isU := r.(unsupported); !isU {
				panic(r)
			}
			sig, recv = nil, nil
		}
	}()
	return c.calleeOrNil(call)
}

func (c *ctx) calleeOrNil(call *ast.CallExpr) (sig *fnSig, recv ast.Expr) {
	if tv, ok := c.t.l.info.Types[call.Fun]; ok && tv.IsType() {
		return nil, nil
	}
	if id, ok := call.Fun.(*ast.Ident); ok {
		if _, isB := c.objOf(id).(*types.Builtin); isB {
			return nil, nil
		}
	}
	if _, ok := isBigEndian(call.Fun); ok {
		return nil, nil
	}
	return c.callee(call)
}

// condition of an if: either a static fact about an error variable or a boolean term
func (c *ctx) errTest(e ast.Expr) (known bool, isNonNil bool) {
	for {
		if p, ok := e.(*ast.ParenExpr); ok {
			e = p.X
			continue
		}
		break
	}
	be, ok := e.(*ast.BinaryExpr)
	if !ok || (be.Op != token.NEQ && be.Op != token.EQL) {
		return false, false
	}
	var id *ast.Ident
	if x, ok := be.X.(*ast.Ident); ok {
		if y, ok := be.Y.(*ast.Ident); ok && y.Name == "nil" {
			id = x
		}
	}
	if id == nil || classify(c.t.l.info.TypeOf(id)).k != kError {
		return false, false
	}
	if c.dyn[c.objOf(id)] {
		return false, false
	}
	st, ok := c.errs[c.objOf(id)]
	if !ok {
		c.t.fail(e, "test of an error variable whose origin is outside the fragment")
	}
	nonNil := st == 2
	if be.Op == token.EQL {
		return true, !nonNil
	}
	return true, nonNil
}

func (c *ctx) ifStmt(s *ast.IfStmt, cont kont) string {
	body := func(c *ctx) string {
		if known, val := c.errTest(s.Cond); known {
			if val {
				return c.block(s.Body.List, cont)
			}
			if s.Else != nil {
				return c.elseBranch(s.Else, cont)
			}
			return cont(c)
		}
		cond := c.expr(s.Cond)
		binds := c.take()
		a := c.clone()
		a.depth = c.depth + 1
		b := c.clone()
		b.depth = c.depth + 1
		var sb strings.Builder
		sb.WriteString(ind(c.depth) + fmt.Sprintf("if %s then\n", cond))
		sb.WriteString(a.block(s.Body.List, cont))
		sb.WriteString(ind(c.depth) + "else\n")
		if s.Else != nil {
			sb.WriteString(b.elseBranch(s.Else, cont))
		} else {
			sb.WriteString(cont(b))
		}
		return wrap(binds, sb.String(), c.depth)
	}
	if s.Init != nil {
		return c.stmts([]ast.Stmt{s.Init}, body)
	}
	return body(c)
}

func (c *ctx) elseBranch(e ast.Stmt, cont kont) string {
	switch x := e.(type) {
	case *ast.BlockStmt:
		return c.block(x.List, cont)
	case *ast.IfStmt:
		return c.ifStmt(x, cont)
	}
	c.t.fail(e, "else branch %T", e)
	return ""
}

func (c *ctx) block(list []ast.Stmt, cont kont) string { return c.stmts(list, cont) }

func (c *ctx) switchStmt(s *ast.SwitchStmt, cont kont) string {
	body := func(c *ctx) string {
		var tag string
		tagTy := tyInfo{}
		if s.Tag != nil {
			tagTy = c.typeOf(s.Tag)
			t := c.expr(s.Tag)
			n := c.tmp()
			c.pending = append(c.pending, fmt.Sprintf("let %s := %s in", n, t))
			tag = n
		}
		binds := c.take()
		var clauses []*ast.CaseClause
		var def *ast.CaseClause
		for _, st := range s.Body.List {
			cc := st.(*ast.CaseClause)
			if cc.List == nil {
				def = cc
			} else {
				clauses = append(clauses, cc)
			}
			for _, b := range cc.Body {
				if br, ok := b.(*ast.BranchStmt); ok {
					c.t.fail(br, "%s inside a switch", br.Tok)
				}
			}
		}
		var gen func(i int, c *ctx) string
		gen = func(i int, c *ctx) string {
			if i == len(clauses) {
				if def != nil {
					return c.block(def.Body, cont)
				}
				return cont(c)
			}
			cc := clauses[i]
			var tests []string
			for _, e := range cc.List {
				if s.Tag != nil {
					v := c.expr(e)
					if tagTy.k == kBool {
						tests = append(tests, fmt.Sprintf("(Bool.eqb %s %s)", tag, v))
					} else {
						tests = append(tests, fmt.Sprintf("(%s =? %s)", tag, v))
					}
				} else {
					tests = append(tests, c.expr(e))
				}
			}
			if len(c.pending) != 0 {
				c.t.fail(cc, "case expression with a possible panic")
			}
			a := c.clone()
			a.depth = c.depth + 1
			b := c.clone()
			b.depth = c.depth + 1
			var sb strings.Builder
			sb.WriteString(ind(c.depth) + fmt.Sprintf("if %s then\n", strings.Join(tests, " || ")))
			sb.WriteString(a.block(cc.Body, cont))
			sb.WriteString(ind(c.depth) + "else\n")
			sb.WriteString(gen(i+1, b))
			return sb.String()
		}
		return wrap(binds, gen(0, c), c.depth)
	}
	if s.Init != nil {
		return c.stmts([]ast.Stmt{s.Init}, body)
	}
	return body(c)
}

func (c *ctx) isErrValue(e ast.Expr) (isNil bool, ok bool) {
	switch x := e.(type) {
	case *ast.Ident:
		if x.Name == "nil" {
			return true, true
		}
		o := c.objOf(x)
		if v, isVar := o.(*types.Var); isVar && classify(v.Type()).k == kError {
			if v.Parent() == c.t.l.pkg.Scope() {
				return false, true // package-level error value
			}
			if st, ok := c.errs[o]; ok {
				return st == 1, true
			}
		}
	case *ast.CallExpr:
		s := types.ExprString(x.Fun)
		if s == "errors.New" || s == "fmt.Errorf" {
			return false, true
		}
	}
	return false, false
}

func (c *ctx) result(vals []string) string {
	var parts []string
	if c.closure != nil {
		// a function literal returns its state (the captured variables it assigns) and its result
		var st []string
		for _, o := range c.closure {
			st = append(st, c.vars[o])
		}
		parts = append(parts, tupleOf(st))
	}
	if c.cbSt != nil {
		parts = append(parts, c.vars[c.cbSt])
	}
	if c.sig.ptrRecv {
		parts = append(parts, c.vars[c.recv])
	}
	for _, o := range c.inout {
		parts = append(parts, c.vars[o])
	}
	parts = append(parts, vals...)
	switch len(parts) {
	case 0:
		return "tt"
	case 1:
		return parts[0]
	}
	return "(" + strings.Join(parts, ", ") + ")"
}

func (c *ctx) ret(s *ast.ReturnStmt) string {
	res := s.Results
	if len(res) == 0 && (c.sig.nres > 0 || c.sig.hasErr) {
		// bare return with named results
		if len(c.results) == 0 {
			c.t.fail(s, "bare return without named results")
		}
		var vals []string
		for i, o := range c.results {
			if c.sig.hasErr && i == len(c.results)-1 {
				st, ok := c.errs[o]
				if ok && st == 2 {
					return wrap(c.take(), ind(c.depth)+"Err\n", c.depth)
				}
				continue
			}
			n, ok := c.vars[o]
			if !ok {
				n = c.t.zero(classify(o.Type()))
			}
			vals = append(vals, n)
		}
		return c.finish(vals)
	}
	if len(res) == 1 {
		// return f(...): the callee's results (and error) are the caller's
		if call, ok := res[0].(*ast.CallExpr); ok {
			if sig, recv := c.calleeOrNil(call); sig != nil && (sig.hasErr || sig.ptrRecv) {
				if sig.nres != c.sig.nres || sig.hasErr != c.sig.hasErr {
					c.t.fail(s, "return of a call whose results do not line up")
				}
				return c.matchCall(call, sig, recv,
					func(d *ctx, names []string) string { return d.finish(names) },
					func(d *ctx) string { return ind(d.depth) + "Err\n" })
			}
		}
	}
	if c.sig.hasErr {
		if len(res) == 0 {
			c.t.fail(s, "return without values")
		}
		last := res[len(res)-1]
		if lid, isId := last.(*ast.Ident); isId && c.dyn[c.objOf(lid)] {
			var vals []string
			for i, e := range res[:len(res)-1] {
				vals = append(vals, c.exprAs(e, c.sig.resTy[i]))
			}
			binds := c.take()
			return wrap(binds, ind(c.depth)+fmt.Sprintf("if %s then Err else %s\n", c.vars[c.objOf(lid)], c.okWrap(c.result(vals))), c.depth)
		}
		isNil, ok := c.isErrValue(last)
		if !ok {
			c.t.fail(last, "returned error value of unknown origin")
		}
		if !isNil {
			return wrap(c.take(), ind(c.depth)+"Err\n", c.depth)
		}
		res = res[:len(res)-1]
	}
	var vals []string
	for i, e := range res {
		if i < len(c.sig.resTy) {
			vals = append(vals, c.exprAs(e, c.sig.resTy[i]))
		} else {
			vals = append(vals, c.expr(e))
		}
	}
	return c.finish(vals)
}

func btoi(b bool) int {
	if b {
		return 1
	}
	return 0
}

func (c *ctx) okWrap(v string) string {
	if c.closure != nil {
		return v
	}
	if c.direct {
		return "Ok (inr " + v + ")"
	}
	if c.t.curPure {
		return v
	}
	return "Ok " + v
}

func (c *ctx) finish(vals []string) string {
	return wrap(c.take(), ind(c.depth)+c.okWrap(c.result(vals))+"\n", c.depth)
}

func (c *ctx) stmts(list []ast.Stmt, k kont) string {
	if len(list) == 0 {
		return k(c)
	}
	s := list[0]
	rest := list[1:]
	cont := func(d *ctx) string { return d.stmts(rest, k) }
	switch x := s.(type) {
	case *ast.EmptyStmt:
		return cont(c)
	case *ast.BlockStmt:
		return c.stmts(x.List, cont)
	case *ast.ReturnStmt:
		return c.ret(x)
	case *ast.IfStmt:
		return c.ifStmt(x, cont)
	case *ast.SwitchStmt:
		return c.switchStmt(x, cont)
	case *ast.AssignStmt:
		return c.assign(x, cont)
	case *ast.TypeSwitchStmt:
		return c.typeSwitch(x, cont)
	case *ast.ForStmt:
		return c.forStmt(x, cont)
	case *ast.RangeStmt:
		return c.rangeStmt(x, cont)
	case *ast.BranchStmt:
		if x.Label != nil || len(c.loops) == 0 {
			c.t.fail(x, "%s outside a loop of the fragment", x.Tok)
		}
		top := c.loops[len(c.loops)-1]
		switch x.Tok {
		case token.CONTINUE:
			return wrap(c.take(), top.onContinue(c), c.depth)
		case token.BREAK:
			return wrap(c.take(), top.onBreak(c), c.depth)
		}
		c.t.fail(x, "%s", x.Tok)
		return ""
	case *ast.IncDecStmt:
		op := token.ADD_ASSIGN
		if x.Tok == token.DEC {
			op = token.SUB_ASSIGN
		}
		one := &ast.BasicLit{Kind: token.INT, Value: "1"}
		c.t.l.info.Types[one] = types.TypeAndValue{Type: c.t.l.info.TypeOf(x.X), Value: constant.MakeInt64(1)}
		return c.assign(&ast.AssignStmt{Lhs: []ast.Expr{x.X}, Tok: op, Rhs: []ast.Expr{one}, TokPos: x.TokPos}, cont)
	case *ast.DeclStmt:
		gd, ok := x.Decl.(*ast.GenDecl)
		if !ok || gd.Tok != token.VAR {
			if ok && gd.Tok == token.CONST {
				return cont(c)
			}
			c.t.fail(x, "declaration statement")
		}
		var chain func(i int, d *ctx) string
		var specs []*ast.ValueSpec
		for _, sp := range gd.Specs {
			specs = append(specs, sp.(*ast.ValueSpec))
		}
		chain = func(i int, d *ctx) string {
			if i == len(specs) {
				return cont(d)
			}
			vs := specs[i]
			if len(vs.Names) != 1 {
				d.t.fail(vs, "var declaration with several names")
			}
			o := d.objOf(vs.Names[0])
			ti := classify(o.Type())
			if ti.k == kError {
				// its value may depend on the path taken through loops: a boolean "is non-nil"
				d.dyn[o] = true
				return d.setVar(o, vs.Names[0].Name, "false", func(d2 *ctx) string { return chain(i+1, d2) })
			}
			if ti.k == kOther {
				d.t.fail(vs, "variable %s of a type outside the fragment", vs.Names[0].Name)
			}
			term := d.t.zero(ti)
			if len(vs.Values) == 1 {
				term = d.expr(vs.Values[0])
			}
			return d.setVar(o, vs.Names[0].Name, term, func(d2 *ctx) string { return chain(i+1, d2) })
		}
		return chain(0, c)
	case *ast.ExprStmt:
		call, ok := x.X.(*ast.CallExpr)
		if !ok {
			c.t.fail(x, "expression statement")
		}
		if name, ok := isBigEndian(call.Fun); ok {
			k, put, ok := beWidth(name)
			if !ok || !put {
				c.t.fail(x, "binary.BigEndian.%s as a statement", name)
			}
			base, off, lim := c.target(call.Args[0])
			val := c.expr(call.Args[1])
			if lim != "" {
				c.bind(fmt.Sprintf("gcheck (%d <=? %s)", k, lim))
			}
			return c.setVarM(base, base.Name(), fmt.Sprintf("gbe_put %d %s %s %s", k, c.vars[base], off, val), cont)
		}
		if id, ok := call.Fun.(*ast.Ident); ok && id.Name == "copy" {
			if _, isB := c.objOf(id).(*types.Builtin); isB && len(call.Args) == 2 && c.typeOf(call.Args[0]).k == kList {
				if did, ok := call.Args[0].(*ast.Ident); ok && c.owned[c.objOf(did)] {
					o := c.objOf(did)
					src := c.expr(call.Args[1])
					return c.setVar(o, did.Name, fmt.Sprintf("(gcopyl %s %s)", c.vars[o], src), cont)
				}
				c.t.fail(x, "copy into a list the function did not allocate")
			}
			if _, isB := c.objOf(id).(*types.Builtin); isB && len(call.Args) == 2 && c.typeOf(call.Args[0]).k == kBytes {
				base, off, lim := c.target(call.Args[0])
				src := c.expr(call.Args[1])
				if lim != "" {
					return c.setVarM(base, base.Name(), fmt.Sprintf("gcopy_lim %s %s %s %s", c.vars[base], off, lim, src), cont)
				}
				return c.setVarM(base, base.Name(), fmt.Sprintf("gcopy %s %s %s", c.vars[base], off, src), cont)
			}
			c.t.fail(x, "copy in this form")
		}
		if sig, recv := c.calleeOrNil(call); sig != nil && sig.cbIdx > 0 {
			return c.cbCall(call, sig, recv, cont)
		}
		if sig, recv := c.calleeOrNil(call); sig != nil {
			if sig.hasErr || sig.ptrRecv || len(sig.inout) > 0 {
				var lhs []ast.Expr
				for i := 0; i < sig.nres+btoi(sig.hasErr); i++ {
					lhs = append(lhs, ast.NewIdent("_"))
				}
				return c.callStmt(lhs, call, sig, recv, cont)
			}
			_ = c.expr(call) // evaluated for its panics only
			return wrap(c.take(), cont(c), c.depth)
		}
		c.t.fail(x, "call statement %s", types.ExprString(call.Fun))
	}
	c.t.fail(s, "statement form %T", s)
	return ""
}

// cbCall: `x.M(func(a T) bool { ... })` as a statement. The function literal becomes `fun st a => (st', result)` where the
// state is the tuple of captured variables the literal assigns; the callee returns the final state, which is bound back
// to those variables. The literal's body has to stay inside the pure fragment (no loops, no panicking operations).
func (c *ctx) cbCall(call *ast.CallExpr, sig *fnSig, recv ast.Expr, cont kont) string {
	lit, ok := call.Args[sig.cbIdx-1].(*ast.FuncLit)
	if !ok {
		c.t.fail(call, "callback argument that is not a function literal")
	}
	info := c.t.l.info
	// captured variables the literal assigns
	seen := map[types.Object]bool{}
	var state []types.Object
	note := func(e ast.Expr) {
		id := c.rootIdent(e)
		if id == nil {
			c.t.fail(e, "assignment target in a function literal")
		}
		o := c.objOf(id)
		if _, outer := c.vars[o]; outer && !seen[o] {
			seen[o] = true
			state = append(state, o)
		}
	}
	ast.Inspect(lit.Body, func(n ast.Node) bool {
		switch x := n.(type) {
		case *ast.AssignStmt:
			if x.Tok != token.DEFINE {
				for _, l := range x.Lhs {
					note(l)
				}
			}
		case *ast.IncDecStmt:
			note(x.X)
		case *ast.FuncLit:
			if x != lit {
				c.t.fail(x, "nested function literal")
			}
		case *ast.ForStmt, *ast.RangeStmt, *ast.GoStmt, *ast.DeferStmt:
			c.t.fail(n, "statement form %T in a function literal", n)
		}
		return true
	})
	sort.Slice(state, func(i, j int) bool { return state[i].Name() < state[j].Name() })
	for _, o := range state {
		if _, isView := c.views[o]; isView || c.poison[o] || o == c.recv {
			c.t.fail(lit, "function literal assigns %s, which is a view, unavailable or the receiver", o.Name())
		}
		if recv != nil {
			if id := c.rootIdent(recv); id != nil && c.objOf(id) == o {
				c.t.fail(lit, "function literal assigns the receiver of the call")
			}
		}
	}
	// the other arguments (evaluated before the call)
	var parts []string
	if recv != nil {
		parts = append(parts, c.expr(recv))
	}
	for i, a := range call.Args {
		if i == sig.cbIdx-1 {
			var st []string
			for _, o := range state {
				st = append(st, c.vars[o])
			}
			parts = append(parts, tupleOf(st))
			continue
		}
		parts = append(parts, c.expr(a))
	}
	// the literal
	d := c.clone()
	d.counter = c.counter
	d.closure = state
	if len(state) == 0 {
		d.closure = []types.Object{}
	}
	d.cb, d.cbSt, d.recv, d.results, d.loops, d.direct = nil, nil, nil, nil, nil, false
	d.sig = &fnSig{key: c.sig.key + ".func", coq: c.sig.coq + "_func", nres: 1, resTy: []tyInfo{{k: kBool}}}
	d.depth = c.depth + 2
	var stNames, stTys []string
	for _, o := range state {
		n := d.fresh(o.Name())
		d.vars[o] = n
		stNames = append(stNames, n)
		stTys = append(stTys, coqTy(classify(o.Type())))
	}
	ft := lit.Type.Params.List[0]
	arg := d.fresh(ft.Names[0].Name)
	d.vars[info.Defs[ft.Names[0]]] = arg
	mono, nl := c.t.usedMono, len(c.t.lifted)
	c.t.usedMono = false
	body := d.stmts(lit.Body.List, func(e *ctx) string {
		c.t.fail(lit, "control reaches the end of a function literal")
		return ""
	})
	if c.t.usedMono || len(c.t.lifted) != nl {
		c.t.fail(lit, "function literal outside the pure fragment")
	}
	c.t.usedMono = mono
	stTy := "unit"
	if len(stTys) > 0 {
		stTy = strings.Join(stTys, " * ")
	}
	open := ""
	if len(state) > 1 {
		open = fmt.Sprintf("let '%s := cst in ", tupleOf(stNames))
	} else if len(state) == 1 {
		open = fmt.Sprintf("let %s := cst in ", stNames[0])
	}
	fun := fmt.Sprintf("(fun (cst : %s) (%s : Z) => %s\n%s%s)", stTy, arg, open, strings.TrimRight(body, "\n"), ind(c.depth+1))
	callText := fmt.Sprintf("%s (%s) %s", sig.coq, stTy, fun)
	for _, p := range parts {
		callText += " " + p
	}
	res := c.fresh("cst")
	if sig.pure {
		c.pending = append(c.pending, fmt.Sprintf("let %s := %s in", res, callText))
	} else {
		c.bindAs(res, callText)
	}
	if len(state) == 1 {
		n := c.fresh(state[0].Name())
		c.pending = append(c.pending, fmt.Sprintf("let %s := %s in", n, res))
		c.vars[state[0]] = n
	} else if len(state) > 1 {
		var ns []string
		for _, o := range state {
			n := c.fresh(o.Name())
			ns = append(ns, n)
			c.vars[o] = n
		}
		c.pending = append(c.pending, fmt.Sprintf("let '%s := %s in", tupleOf(ns), res))
	}
	return wrap(c.take(), cont(c), c.depth)
}

// ---- interface values: type switches and comma-ok assertions are matches on the sum ----

func (c *ctx) memberOf(e ast.Expr, iface string) string {
	n := namedName(c.t.l.info.TypeOf(e))
	for _, m := range ifaceSums[iface] {
		if m == n {
			return m
		}
	}
	return ""
}

func (c *ctx) typeSwitch(s *ast.TypeSwitchStmt, cont kont) string {
	body := func(c *ctx) string {
		var subject ast.Expr
		var bindName *ast.Ident
		switch a := s.Assign.(type) {
		case *ast.ExprStmt:
			subject = a.X.(*ast.TypeAssertExpr).X
		case *ast.AssignStmt:
			subject = a.Rhs[0].(*ast.TypeAssertExpr).X
			bindName = a.Lhs[0].(*ast.Ident)
		}
		st := c.typeOf(subject)
		if st.k != kIface {
			c.t.fail(s, "type switch on something that is not one of the interface sums")
		}
		v := c.expr(subject)
		binds := c.take()
		var def *ast.CaseClause
		var sb strings.Builder
		sb.WriteString(ind(c.depth) + fmt.Sprintf("match %s with\n", v))
		seen := map[string]bool{}
		for _, stt := range s.Body.List {
			cc := stt.(*ast.CaseClause)
			if cc.List == nil {
				def = cc
				continue
			}
			for _, te := range cc.List {
				m := c.memberOf(te, st.name)
				isNil := false
				if id, ok := te.(*ast.Ident); ok && id.Name == "nil" {
					isNil = true
				}
				if m == "" && !isNil {
					// a type outside the sum never matches a value of the sum
					continue
				}
				d := c.clone()
				d.depth = c.depth + 1
				pat := st.name + "_nil"
				if !isNil {
					pat = fmt.Sprintf("%s_%s a_sw", st.name, m)
					seen[m] = true
				}
				sb.WriteString(ind(c.depth) + "| " + pat + " =>\n")
				if bindName != nil && bindName.Name != "_" {
					if o := c.t.l.info.Implicits[cc]; o != nil {
						if len(cc.List) == 1 && !isNil {
							nm := d.fresh(bindName.Name)
							d.vars[o] = nm
							sb.WriteString(ind(d.depth) + fmt.Sprintf("let %s := a_sw in\n", nm))
						} else {
							// several types in the clause: the variable keeps the interface type
							nm := d.fresh(bindName.Name)
							d.vars[o] = nm
							sb.WriteString(ind(d.depth) + fmt.Sprintf("let %s := %s in\n", nm, v))
						}
					}
				}
				sb.WriteString(d.block(cc.Body, cont))
			}
		}
		d := c.clone()
		d.depth = c.depth + 1
		sb.WriteString(ind(c.depth) + "| _ =>\n")
		if def != nil {
			if bindName != nil && bindName.Name != "_" {
				if o := c.t.l.info.Implicits[def]; o != nil {
					nm := d.fresh(bindName.Name)
					d.vars[o] = nm
					sb.WriteString(ind(d.depth) + fmt.Sprintf("let %s := %s in\n", nm, v))
				}
			}
			sb.WriteString(d.block(def.Body, cont))
		} else {
			sb.WriteString(cont(d))
		}
		sb.WriteString(ind(c.depth) + "end\n")
		return wrap(binds, sb.String(), c.depth)
	}
	if s.Init != nil {
		return c.stmts([]ast.Stmt{s.Init}, body)
	}
	return body(c)
}

// v, ok := x.(*T)
func (c *ctx) commaOk(s *ast.AssignStmt, ta *ast.TypeAssertExpr, cont kont) string {
	st := c.typeOf(ta.X)
	if st.k != kIface {
		c.t.fail(s, "type assertion on something that is not one of the interface sums")
	}
	m := c.memberOf(ta.Type, st.name)
	v := c.expr(ta.X)
	binds := c.take()
	mt := tyInfo{}
	if m != "" {
		mt = c.t.memberTy(m)
	} else {
		mt = classify(c.t.l.info.TypeOf(ta.Type))
	}
	branch := func(d *ctx, val, okv string) string {
		return d.assignTo(s.Lhs[0], val, func(d2 *ctx) string { return d2.assignTo(s.Lhs[1], okv, cont) })
	}
	var sb strings.Builder
	if m == "" {
		d := c.clone()
		return wrap(binds, branch(d, c.t.zero(mt), "false"), c.depth)
	}
	sb.WriteString(ind(c.depth) + fmt.Sprintf("match %s with\n", v))
	sb.WriteString(ind(c.depth) + fmt.Sprintf("| %s_%s a_ta =>\n", st.name, m))
	d1 := c.clone()
	d1.depth = c.depth + 1
	sb.WriteString(branch(d1, "a_ta", "true"))
	sb.WriteString(ind(c.depth) + "| _ =>\n")
	d2 := c.clone()
	d2.depth = c.depth + 1
	sb.WriteString(branch(d2, c.t.zero(mt), "false"))
	sb.WriteString(ind(c.depth) + "end\n")
	return wrap(binds, sb.String(), c.depth)
}

// ---- loops (lambda-lifted: one top-level Fixpoint per loop, one Definition for what follows it) ----

type scopeVar struct {
	obj  types.Object
	name string
	ty   string
}

func (c *ctx) scopeVars() []scopeVar {
	var out []scopeVar
	for o, n := range c.vars {
		if n == "view" || n == "poisoned" || n == "alias" || c.poison[o] {
			continue
		}
		if _, isView := c.views[o]; isView {
			continue
		}
		if _, isAlias := c.aliases[o]; isAlias {
			continue
		}
		if o == c.cbSt {
			out = append(out, scopeVar{o, n, "CbSt"})
			continue
		}
		ti := classify(o.Type())
		switch ti.k {
		case kUint, kSint, kBool, kBytes, kStruct, kList, kString, kIface, kMap, kFloat:
			out = append(out, scopeVar{o, n, coqTy(ti)})
		case kError:
			if c.dyn[o] {
				out = append(out, scopeVar{o, n, "bool"})
			}
		}
	}
	sort.Slice(out, func(i, j int) bool { return out[i].name < out[j].name })
	return out
}

func params(vs []scopeVar) string {
	var b strings.Builder
	for _, v := range vs {
		fmt.Fprintf(&b, " (%s : %s)", v.name, v.ty)
	}
	return b.String()
}

func (c *ctx) actuals(vs []scopeVar) string {
	var b strings.Builder
	for _, v := range vs {
		n, ok := c.vars[v.obj]
		if !ok || n == "view" || n == "poisoned" || c.poison[v.obj] {
			c.t.fail(nil, "variable %s is not available at a loop edge", v.obj.Name())
		}
		b.WriteString(" " + n)
	}
	return b.String()
}

func (t *translator) nextLift() int { t.liftN++; return t.liftN }

// liftAfter emits `Definition F_afterN (vars) := <continuation>` and returns its name
func (c *ctx) liftAfter(n int, vs []scopeVar, cont kont) string {
	name := fmt.Sprintf("%s_after%d", c.sig.coq, n)
	ac := c.clone()
	ac.depth = 1
	body := cont(ac)
	c.t.lifted = append(c.t.lifted, fmt.Sprintf("Definition %s%s : %s :=\n%s.\n\n", name, params(vs), c.resTy, strings.TrimRight(body, "\n")))
	return name
}

// fuelFor recognises `i < E`, `i <= E`, `E > i`, `E >= i` and returns an iteration bound as a nat term
func (c *ctx) fuelFor(cond ast.Expr) string {
	for {
		if p, ok := cond.(*ast.ParenExpr); ok {
			cond = p.X
			continue
		}
		break
	}
	be, ok := cond.(*ast.BinaryExpr)
	if !ok {
		c.t.fail(cond, "loop condition of a form without an obvious bound")
	}
	if be.Op == token.LAND {
		// either conjunct bounds the loop; take the first that has the shape i < E
		var out string
		func() {
			defer func() {
				if r := recover(); r != nil {
					if _, isU := r.(unsupported); !isU {
						panic(r)
					}
					out = c.fuelFor(be.Y)
				}
			}()
			out = c.fuelFor(be.X)
		}()
		return out
	}
	var lo, hi ast.Expr
	strict := true
	switch be.Op {
	case token.LSS:
		lo, hi = be.X, be.Y
	case token.LEQ:
		lo, hi, strict = be.X, be.Y, false
	case token.GTR:
		lo, hi = be.Y, be.X
	case token.GEQ:
		lo, hi, strict = be.Y, be.X, false
	default:
		c.t.fail(cond, "loop condition of a form without an obvious bound")
	}
	if c.typeOf(lo).k == kFloat || c.typeOf(hi).k == kFloat {
		c.t.fail(cond, "loop bounded by a float comparison (needs a fuel hint)")
	}
	d := c.clone()
	d.counter = c.counter
	l := d.expr(lo)
	h := d.expr(hi)
	if len(d.pending) != 0 {
		c.t.fail(cond, "loop bound with a possible panic")
	}
	if strict {
		return fmt.Sprintf("(S (Z.to_nat (%s - %s)))", h, l)
	}
	return fmt.Sprintf("(S (Z.to_nat (%s - %s + 1)))", h, l)
}

// ---- nested loops, direct style: the loop is a function returning either the variables in scope at its exit (inl) or
// the value the enclosing Go function returned from inside it (inr); the caller matches on the result. ----

func tupleOf(parts []string) string {
	switch len(parts) {
	case 0:
		return "tt"
	case 1:
		return parts[0]
	}
	return "(" + strings.Join(parts, ", ") + ")"
}

func (c *ctx) directResultTy(vs []scopeVar) string {
	var tys []string
	for _, v := range vs {
		tys = append(tys, v.ty)
	}
	tt := "unit"
	if len(tys) > 0 {
		tt = strings.Join(tys, " * ")
	}
	return fmt.Sprintf("res ((%s) + (%s))", tt, c.resRaw)
}

func (c *ctx) exitTuple(vs []scopeVar) string {
	var names []string
	for _, v := range vs {
		n, ok := c.vars[v.obj]
		if !ok || c.poison[v.obj] {
			c.t.fail(nil, "variable %s is not available at a loop exit", v.obj.Name())
		}
		names = append(names, n)
	}
	return "Ok (inl " + tupleOf(names) + ")"
}

// afterDirect: `match <call> with Ok (inl vars) => cont | Ok (inr r) => return r | ...`
func (c *ctx) afterDirect(callText string, vs []scopeVar, cont kont) string {
	c.t.usedMono = true
	binds := c.take()
	d := c.clone()
	d.depth = c.depth + 1
	var names []string
	for _, v := range vs {
		n := d.fresh(v.obj.Name())
		d.vars[v.obj] = n
		names = append(names, n)
	}
	var b strings.Builder
	b.WriteString(ind(c.depth) + "match " + callText + " with\n")
	b.WriteString(ind(c.depth) + "| Ok (inl " + tupleOf(names) + ") =>\n")
	b.WriteString(cont(d))
	b.WriteString(ind(c.depth) + "| Ok (inr r) => " + c.okWrap("r") + "\n")
	b.WriteString(ind(c.depth) + "| Err => Err\n" + ind(c.depth) + "| Panic => Panic\n" + ind(c.depth) + "| Fuel => Fuel\n" + ind(c.depth) + "end\n")
	return wrap(binds, b.String(), c.depth)
}

func (c *ctx) forStmtDirect(s *ast.ForStmt, cont kont) string {
	if s.Cond == nil {
		c.t.fail(s, "loop without a condition")
	}
	c.t.usedMono = true
	n := c.t.nextLift()
	vs := c.scopeVars()
	loop := fmt.Sprintf("%s_loop%d", c.sig.coq, n)
	lc := c.clone()
	lc.depth = 3
	lc.direct = true
	self := func(d *ctx) string { return ind(d.depth) + loop + " fuel'" + d.actuals(vs) + "\n" }
	step := func(d *ctx) string {
		if s.Post == nil {
			return self(d)
		}
		return d.stmts([]ast.Stmt{s.Post}, self)
	}
	lc.loops = append(append([]loopInfo(nil), c.loops...), loopInfo{
		onContinue: step,
		onBreak:    func(d *ctx) string { return ind(d.depth) + d.exitTuple(vs) + "\n" },
	})
	cond := lc.expr(s.Cond)
	binds := lc.take()
	exit := ind(3) + lc.exitTuple(vs) + "\n"
	bc := lc.clone()
	var sb strings.Builder
	sb.WriteString(ind(2) + fmt.Sprintf("if %s then\n", cond))
	sb.WriteString(bc.stmts(s.Body.List, step))
	sb.WriteString(ind(2) + "else\n")
	sb.WriteString(exit)
	code := wrap(binds, sb.String(), 2)
	c.t.lifted = append(c.t.lifted, fmt.Sprintf("Fixpoint %s (fuel : nat)%s {struct fuel} : %s :=\n  match fuel with\n  | O => Fuel\n  | S fuel' =>\n%s  end.\n\n",
		loop, params(vs), c.directResultTy(vs), code))
	var fuel string
	if h, ok := fuelHints[c.sig.key+"|"+types.ExprString(s.Cond)]; ok {
		fuel = h
	} else {
		fuel = c.fuelFor(s.Cond)
	}
	return c.afterDirect(fmt.Sprintf("%s %s%s", loop, fuel, c.actuals(vs)), vs, cont)
}

// substHint: `$x` in a fuel hint is the current value of the Go variable x
func (c *ctx) substHint(h string) string {
	for o, n := range c.vars {
		if strings.Contains(h, "$"+o.Name()) && n != "view" && n != "alias" && n != "poisoned" {
			h = strings.ReplaceAll(h, "$"+o.Name(), n)
		}
	}
	if strings.Contains(h, "$") {
		c.t.fail(nil, "fuel hint mentions a variable that is not in scope: %s", h)
	}
	return h
}

func (c *ctx) forStmt(s *ast.ForStmt, cont kont) string {
	if len(c.loops) > 0 {
		if s.Init != nil {
			return c.stmts([]ast.Stmt{s.Init}, func(d *ctx) string { return d.forStmtDirect(s, cont) })
		}
		return c.forStmtDirect(s, cont)
	}
	body := func(c *ctx) string {
		if s.Cond == nil {
			c.t.fail(s, "loop without a condition")
		}
		c.t.usedMono = true
		n := c.t.nextLift()
		vs := c.scopeVars()
		after := c.liftAfter(n, vs, cont)
		loop := fmt.Sprintf("%s_loop%d", c.sig.coq, n)
		lc := c.clone()
		lc.depth = 3
		self := func(d *ctx) string { return ind(d.depth) + loop + " fuel'" + d.actuals(vs) + "\n" }
		step := func(d *ctx) string {
			if s.Post == nil {
				return self(d)
			}
			return d.stmts([]ast.Stmt{s.Post}, self)
		}
		lc.loops = append(append([]loopInfo(nil), c.loops...), loopInfo{
			onContinue: step,
			onBreak:    func(d *ctx) string { return ind(d.depth) + after + d.actuals(vs) + "\n" },
		})
		cond := lc.expr(s.Cond)
		binds := lc.take()
		exit := ind(3) + after + lc.actuals(vs) + "\n"
		bc := lc.clone()
		var sb strings.Builder
		sb.WriteString(ind(2) + fmt.Sprintf("if %s then\n", cond))
		sb.WriteString(bc.stmts(s.Body.List, step))
		sb.WriteString(ind(2) + "else\n")
		sb.WriteString(exit)
		code := wrap(binds, sb.String(), 2)
		c.t.lifted = append(c.t.lifted, fmt.Sprintf("Fixpoint %s (fuel : nat)%s {struct fuel} : %s :=\n  match fuel with\n  | O => Fuel\n  | S fuel' =>\n%s  end.\n\n",
			loop, params(vs), c.resTy, code))
		var fuel string
		if h, ok := fuelHints[c.sig.key+"|"+types.ExprString(s.Cond)]; ok {
			fuel = c.substHint(h)
		} else {
			fuel = c.fuelFor(s.Cond)
		}
		return wrap(c.take(), ind(c.depth)+fmt.Sprintf("%s %s%s\n", loop, fuel, c.actuals(vs)), c.depth)
	}
	if s.Init != nil {
		return c.stmts([]ast.Stmt{s.Init}, body)
	}
	return body(c)
}

func (c *ctx) rangeStmtDirect(s *ast.RangeStmt, cont kont) string {
	xt := c.typeOf(s.X)
	if xt.ptr {
		if vid, ok := s.Value.(*ast.Ident); ok && vid.Name != "_" && c.t.bodyMutates(s.Body, c.objOf(vid)) {
			c.t.fail(s, "nested range loop that writes through its loop variable")
		}
	}
	xs := c.expr(s.X)
	n := c.t.nextLift()
	vs := c.scopeVars()
	loop := fmt.Sprintf("%s_loop%d", c.sig.coq, n)
	lc := c.clone()
	lc.depth = 2
	lc.direct = true
	self := func(d *ctx) string { return ind(d.depth) + loop + " rest' (idx + 1)" + d.actuals(vs) + "\n" }
	lc.loops = append(append([]loopInfo(nil), c.loops...), loopInfo{
		onContinue: self,
		onBreak:    func(d *ctx) string { return ind(d.depth) + d.exitTuple(vs) + "\n" },
	})
	var sb strings.Builder
	if id, ok := s.Key.(*ast.Ident); ok && id.Name != "_" {
		name := lc.fresh(id.Name)
		lc.vars[lc.objOf(id)] = name
		sb.WriteString(ind(2) + fmt.Sprintf("let %s := idx in\n", name))
	}
	if id, ok := s.Value.(*ast.Ident); ok && id.Name != "_" {
		name := lc.fresh(id.Name)
		lc.vars[lc.objOf(id)] = name
		sb.WriteString(ind(2) + fmt.Sprintf("let %s := x in\n", name))
	}
	exit := func() string { d := c.clone(); return d.exitTuple(vs) }()
	sb.WriteString(lc.stmts(s.Body.List, self))
	c.t.lifted = append(c.t.lifted, fmt.Sprintf("Fixpoint %s (rest : %s) (idx : Z)%s {struct rest} : %s :=\n  match rest with\n  | [] => %s\n  | x :: rest' =>\n%s  end.\n\n",
		loop, coqTy(xt), params(vs), c.directResultTy(vs), exit, sb.String()))
	return c.afterDirect(fmt.Sprintf("%s %s 0%s", loop, xs, c.actuals(vs)), vs, cont)
}

func (c *ctx) rangeStmt(s *ast.RangeStmt, cont kont) string {
	xt := c.typeOf(s.X)
	if xt.k != kList || (s.Tok != token.DEFINE && (s.Key != nil || s.Value != nil)) {
		c.t.fail(s, "range over something that is not a list of the fragment")
	}
	if len(c.loops) > 0 {
		return c.rangeStmtDirect(s, cont)
	}
	xs := c.expr(s.X)
	pre := c.take()
	n := c.t.nextLift()
	vs := c.scopeVars()
	after := c.liftAfter(n, vs, cont)
	loop := fmt.Sprintf("%s_loop%d", c.sig.coq, n)
	lc := c.clone()
	lc.depth = 2
	plainSelf := func(d *ctx) string { return ind(d.depth) + loop + " rest' (idx + 1)" + d.actuals(vs) + "\n" }
	self := plainSelf
	if vid, ok := s.Value.(*ast.Ident); ok && vid.Name != "_" && xt.ptr && c.t.bodyMutates(s.Body, c.objOf(vid)) {
		// the elements are pointers and the body writes through the loop variable: the element of the ranged slice
		// is the struct that was updated
		idxId := ast.NewIdent("idx")
		fake := types.NewVar(token.NoPos, c.t.l.pkg, "idx", types.Typ[types.Int])
		c.t.l.info.Uses[idxId] = fake
		c.t.l.info.Types[idxId] = types.TypeAndValue{Type: types.Typ[types.Int]}
		target := &ast.IndexExpr{X: s.X, Index: idxId}
		c.t.l.info.Types[target] = types.TypeAndValue{Type: c.t.l.info.TypeOf(vid)}
		vobj := c.objOf(vid)
		self = func(d *ctx) string {
			d.vars[fake] = "idx"
			return d.assignTo(target, d.vars[vobj], func(d2 *ctx) string { delete(d2.vars, fake); return plainSelf(d2) })
		}
	}
	lc.loops = append(append([]loopInfo(nil), c.loops...), loopInfo{
		onContinue: self,
		onBreak:    func(d *ctx) string { return ind(d.depth) + after + d.actuals(vs) + "\n" },
	})
	var sb strings.Builder
	if id, ok := s.Key.(*ast.Ident); ok && id.Name != "_" {
		name := lc.fresh(id.Name)
		lc.vars[lc.objOf(id)] = name
		sb.WriteString(ind(2) + fmt.Sprintf("let %s := idx in\n", name))
	}
	if id, ok := s.Value.(*ast.Ident); ok && id.Name != "_" {
		name := lc.fresh(id.Name)
		lc.vars[lc.objOf(id)] = name
		sb.WriteString(ind(2) + fmt.Sprintf("let %s := x in\n", name))
	}
	sb.WriteString(lc.stmts(s.Body.List, self))
	c.t.lifted = append(c.t.lifted, fmt.Sprintf("Fixpoint %s (rest : %s) (idx : Z)%s {struct rest} : %s :=\n  match rest with\n  | [] => %s%s\n  | x :: rest' =>\n%s  end.\n\n",
		loop, coqTy(xt), params(vs), c.resTy, after, func() string { d := c.clone(); return d.actuals(vs) }(), sb.String()))
	return wrap(pre, ind(c.depth)+fmt.Sprintf("%s %s 0%s\n", loop, xs, c.actuals(vs)), c.depth)
}

// bodyMutates: does the block write through the variable (field assignment, or a call of a method that writes its receiver)?
func (t *translator) bodyMutates(body *ast.BlockStmt, obj types.Object) bool {
	found := false
	root := func(e ast.Expr) types.Object {
		for {
			switch x := e.(type) {
			case *ast.ParenExpr:
				e = x.X
			case *ast.StarExpr:
				e = x.X
			case *ast.SelectorExpr:
				e = x.X
			case *ast.IndexExpr:
				e = x.X
			case *ast.Ident:
				if o := t.l.info.Uses[x]; o != nil {
					return o
				}
				return t.l.info.Defs[x]
			default:
				return nil
			}
		}
	}
	ast.Inspect(body, func(n ast.Node) bool {
		switch x := n.(type) {
		case *ast.AssignStmt:
			for _, l := range x.Lhs {
				if _, plain := l.(*ast.Ident); !plain && root(l) == obj {
					found = true
				}
			}
		case *ast.IncDecStmt:
			if _, plain := x.X.(*ast.Ident); !plain && root(x.X) == obj {
				found = true
			}
		case *ast.CallExpr:
			if sel, ok := x.Fun.(*ast.SelectorExpr); ok && root(sel.X) == obj {
				if fo, ok := t.l.info.Uses[sel.Sel].(*types.Func); ok && fo.Pkg() == t.l.pkg {
					rt := classify(t.l.info.TypeOf(sel.X))
					if rt.name != "" && t.mutatesRecv(rt.name+"."+sel.Sel.Name) {
						found = true
					}
				}
			}
		}
		return true
	})
	return found
}

// ---- does a pointer-receiver method write through its receiver? ----

// paramWritten: the body stores into the byte slice parameter [obj] (element assignment, BigEndian.Put*, copy into it)
func (t *translator) paramWritten(body *ast.BlockStmt, obj types.Object) bool {
	root := func(e ast.Expr) types.Object {
		for {
			switch x := e.(type) {
			case *ast.ParenExpr:
				e = x.X
			case *ast.SliceExpr:
				e = x.X
			case *ast.IndexExpr:
				e = x.X
			case *ast.Ident:
				if o := t.l.info.Uses[x]; o != nil {
					return o
				}
				return t.l.info.Defs[x]
			default:
				return nil
			}
		}
	}
	found := false
	ast.Inspect(body, func(n ast.Node) bool {
		switch x := n.(type) {
		case *ast.AssignStmt:
			for _, l := range x.Lhs {
				if ie, ok := l.(*ast.IndexExpr); ok && root(ie) == obj {
					found = true
				}
			}
		case *ast.CallExpr:
			if name, ok := isBigEndian(x.Fun); ok {
				if _, put, ok := beWidth(name); ok && put && len(x.Args) > 0 && root(x.Args[0]) == obj {
					found = true
				}
			}
			if id, ok := x.Fun.(*ast.Ident); ok && id.Name == "copy" && len(x.Args) == 2 && root(x.Args[0]) == obj {
				found = true
			}
		}
		return !found
	})
	return found
}

func (t *translator) mutatesRecv(key string) bool {
	if t.mutates == nil {
		t.mutates = map[string]int{}
	}
	switch t.mutates[key] {
	case 1:
		return false
	case 2, 3:
		return true // in progress: recursion, be conservative
	}
	fd, ok := t.decls[key]
	if !ok || fd.Recv == nil || len(fd.Recv.List) != 1 || len(fd.Recv.List[0].Names) != 1 {
		t.mutates[key] = 2
		return true
	}
	if _, isPtr := fd.Recv.List[0].Type.(*ast.StarExpr); !isPtr {
		t.mutates[key] = 1
		return false
	}
	t.mutates[key] = 3
	recv := t.l.info.Defs[fd.Recv.List[0].Names[0]]
	root := func(e ast.Expr) types.Object {
		for {
			switch x := e.(type) {
			case *ast.ParenExpr:
				e = x.X
			case *ast.StarExpr:
				e = x.X
			case *ast.SelectorExpr:
				e = x.X
			case *ast.IndexExpr:
				e = x.X
			case *ast.SliceExpr:
				e = x.X
			case *ast.Ident:
				if o := t.l.info.Uses[x]; o != nil {
					return o
				}
				return t.l.info.Defs[x]
			default:
				return nil
			}
		}
	}
	found := false
	ast.Inspect(fd.Body, func(n ast.Node) bool {
		switch x := n.(type) {
		case *ast.AssignStmt:
			for _, l := range x.Lhs {
				if _, plain := l.(*ast.Ident); !plain && root(l) == recv {
					found = true
				}
			}
		case *ast.IncDecStmt:
			if _, plain := x.X.(*ast.Ident); !plain && root(x.X) == recv {
				found = true
			}
		case *ast.UnaryExpr:
			if x.Op == token.AND && root(x.X) == recv {
				found = true // address of a part of the receiver escapes
			}
		case *ast.CallExpr:
			if sel, ok := x.Fun.(*ast.SelectorExpr); ok && root(sel.X) == recv {
				if fo, ok := t.l.info.Uses[sel.Sel].(*types.Func); ok && fo.Pkg() == t.l.pkg {
					rt := classify(t.l.info.TypeOf(sel.X))
					if rt.name != "" && t.mutatesRecv(rt.name+"."+sel.Sel.Name) {
						if sg, ok := fo.Type().(*types.Signature); ok && sg.Recv() != nil {
							if _, isPtr := sg.Recv().Type().(*types.Pointer); isPtr {
								found = true
							}
						}
					}
				}
			}
			// the receiver handed to another function as a pointer
			for _, a := range x.Args {
				if id, ok := a.(*ast.Ident); ok && root(id) == recv {
					if fid, ok := x.Fun.(*ast.Ident); !ok || fid.Name != "wireSize" {
						found = true
					}
				}
			}
		}
		return true
	})
	if found {
		t.mutates[key] = 2
	} else {
		t.mutates[key] = 1
	}
	return found
}

// ---- functions ----

func (t *translator) signature(key string, fd *ast.FuncDecl) *fnSig {
	sig := &fnSig{key: key, coq: strings.ReplaceAll(key, ".", "_")}
	if fd.Recv != nil && len(fd.Recv.List) == 1 {
		sig.hasRecv = true
		_, sig.ptrRecv = fd.Recv.List[0].Type.(*ast.StarExpr)
		if sig.ptrRecv && !t.mutatesRecv(key) {
			sig.ptrRecv = false
		}
		rt := classify(t.l.info.TypeOf(fd.Recv.List[0].Type))
		sig.recvTy = rt.name
		sig.recvCoq = coqTy(rt)
	}
	if fd.Type.Results != nil {
		for _, r := range fd.Type.Results.List {
			n := len(r.Names)
			if n == 0 {
				n = 1
			}
			ti := classify(t.l.info.TypeOf(r.Type))
			for i := 0; i < n; i++ {
				if ti.k == kError {
					sig.hasErr = true
				} else {
					if sig.hasErr {
						t.fail(r, "error result that is not the last result")
					}
					if ti.k == kOther {
						t.fail(r, "result type %s outside the fragment", types.ExprString(r.Type))
					}
					sig.nres++
					sig.resTy = append(sig.resTy, ti)
				}
			}
		}
	}
	return sig
}

func (t *translator) translate(key string) {
	fd, ok := t.decls[key]
	if !ok {
		t.failed = append(t.failed, [3]string{key, "no such function in the package", ""})
		return
	}
	defer func() {
		if r := recover(); r != nil {
			u, ok := r.(unsupported)
			if !ok {
				panic(r)
			}
			pos := ""
			if u.pos.IsValid() {
				p := t.l.fset.Position(u.pos)
				pos = fmt.Sprintf("%s:%d", shortFile(p.Filename), p.Line)
			}
			t.failed = append(t.failed, [3]string{key, u.msg, pos})
		}
	}()
	sig := t.signature(key, fd)
	gen := func(pure bool) (string, bool) {
		t.curPure = pure
		t.usedMono = false
		t.lifted = nil
		t.liftN = 0
		c := &ctx{t: t, fd: fd, sig: sig, vars: map[types.Object]string{}, errs: map[types.Object]int{}, owned: map[types.Object]bool{},
			views: map[types.Object]view{}, poison: map[types.Object]bool{}, counter: map[string]int{}, depth: 1, aliases: map[types.Object]alias{}, dyn: map[types.Object]bool{},
			oracles: &oracleSet{bySite: map[*ast.CallExpr]string{}}}
		var params []string
		if sig.hasRecv {
			f := fd.Recv.List[0]
			rti := classify(t.l.info.TypeOf(f.Type))
			var pty string
			switch rti.k {
			case kStruct:
				t.needStruct(rti.name)
				pty = rti.name
			case kUint, kSint, kBool, kBytes, kString, kList:
				pty = coqTy(rti)
			default:
				t.fail(f, "receiver type outside the fragment")
			}
			name := "recv"
			if len(f.Names) == 1 && f.Names[0].Name != "_" {
				o := t.l.info.Defs[f.Names[0]]
				name = c.fresh(f.Names[0].Name)
				c.vars[o] = name
				c.recv = o
			} else {
				name = c.fresh("recv")
				if sig.ptrRecv {
					t.fail(f, "anonymous pointer receiver")
				}
			}
			params = append(params, fmt.Sprintf("(%s : %s)", name, pty))
		}
		flat := 0
		sig.inout = nil
		for pi, p := range fd.Type.Params.List {
			ti := classify(t.l.info.TypeOf(p.Type))
			if ti.k == kFunc {
				if len(p.Names) != 1 || p.Names[0].Name == "_" || c.cb != nil || sig.hasErr || sig.ptrRecv || sig.nres != 0 {
					t.fail(p, "callback parameter in this position")
				}
				c.cb = t.l.info.Defs[p.Names[0]]
				c.cbName = c.fresh(p.Names[0].Name)
				c.cbSt = types.NewVar(token.NoPos, t.l.pkg, "cbstate", types.Typ[types.Invalid])
				c.vars[c.cbSt] = c.fresh("st")
				params = append(params, fmt.Sprintf("(%s : CbSt)", c.vars[c.cbSt]))
				sig.cbIdx = pi + 1
				flat++
				continue
			}
			if ti.k == kOther || ti.k == kError {
				t.fail(p, "parameter type %s outside the fragment", types.ExprString(p.Type))
			}
			if ti.k == kStruct {
				t.needStruct(ti.name)
			}
			for _, n := range p.Names {
				name := c.fresh(n.Name)
				if n.Name != "_" {
					o := t.l.info.Defs[n]
					c.vars[o] = name
					if ti.k == kBytes && t.paramWritten(fd.Body, o) {
						// the caller's buffer is written: the function owns it for its duration and hands it back
						c.owned[o] = true
						c.inout = append(c.inout, o)
						sig.inout = append(sig.inout, flat)
					}
				}
				flat++
				params = append(params, fmt.Sprintf("(%s : %s)", name, coqTy(ti)))
			}
		}
		namedInit := ""
		if fd.Type.Results != nil {
			for _, r := range fd.Type.Results.List {
				for _, n := range r.Names {
					o := t.l.info.Defs[n]
					c.results = append(c.results, o)
					ti := classify(o.Type())
					if ti.k == kError {
						c.errs[o] = 1
					} else if ti.k != kOther {
						nm := c.fresh(n.Name)
						c.vars[o] = nm
						if ti.k == kBytes {
							// an empty list that nothing may use before it is overwritten needs its type spelled out
							namedInit += fmt.Sprintf("  let %s : %s := %s in\n", nm, coqTy(ti), t.zero(ti))
						} else {
							namedInit += fmt.Sprintf("  let %s := %s in\n", nm, t.zero(ti))
						}
					}
				}
			}
		}
		var rts []string
		if c.cb != nil {
			rts = append(rts, "CbSt")
		}
		if sig.ptrRecv {
			rts = append(rts, sig.recvCoq)
		}
		for range c.inout {
			rts = append(rts, "bytes")
		}
		for _, r := range sig.resTy {
			rts = append(rts, coqTy(r))
		}
		rt := "unit"
		if len(rts) > 0 {
			rt = strings.Join(rts, " * ")
		}
		c.resRaw = rt
		if !pure {
			rt = "res (" + rt + ")"
		}
		c.resTy = rt
		body := c.stmts(fd.Body.List, func(d *ctx) string {
			// falling off the end: only legal without results
			if sig.nres > 0 || sig.hasErr {
				t.fail(fd, "control reaches the end of a function with results")
			}
			return d.finish(nil)
		})
		for _, o := range c.oracles.order {
			params = append(params, fmt.Sprintf("(%s : Z)", o))
		}
		sig.noracles = len(c.oracles.order)
		pos := t.l.fset.Position(fd.Pos())
		head := fmt.Sprintf("(* %s  func %s *)\nDefinition %s %s : %s :=\n", shortFile(pos.Filename), key, sig.coq, strings.Join(params, " "), rt)
		code := strings.Join(t.lifted, "") + head + namedInit + strings.TrimRight(body, "\n") + ".\n\n"
		if c.cb != nil {
			// the callback and its state type are section variables: after the section every definition that uses them takes
			// them as its first arguments
			code = fmt.Sprintf("Section S_%s.\nVariable CbSt : Type.\nVariable %s : CbSt -> Z -> CbSt * bool.\n\n%sEnd S_%s.\n\n", sig.coq, c.cbName, code, sig.coq)
		}
		return code, t.usedMono
	}
	code, mono := gen(false)
	if !mono && !sig.hasErr {
		code, _ = gen(true)
		sig.pure = true
	}
	t.sigs[key] = sig
	t.body.WriteString(code)
	t.emitted = append(t.emitted, key)
	t.emittedOrder = append(t.emittedOrder, key)
}

func shortFile(p string) string {
	if i := strings.LastIndex(p, "/"); i >= 0 {
		return p[i+1:]
	}
	return p
}

// ---- S-expression printers/readers for the generated records and by-name dispatch of the translated methods:
// what Check/SrcCheck.v needs to run the translated functions on the harness's cases ----

func (t *translator) showField(ti tyInfo, x string) string {
	switch ti.k {
	case kUint, kSint, kFloat:
		return "zn " + x
	case kBool:
		return "sbool " + x
	case kBytes, kString:
		return "SB " + x
	case kStruct:
		return fmt.Sprintf("SL (show_%s %s)", ti.name, x)
	case kList:
		return fmt.Sprintf("SL (map (fun e => %s) %s)", t.showField(*ti.elem, "e"), x)
	case kIface:
		return fmt.Sprintf("show_%s %s", ti.name, x)
	}
	return "SY \"?\""
}

func (t *translator) readField(ti tyInfo) string {
	switch ti.k {
	case kUint, kSint, kFloat:
		return "rz"
	case kBool:
		return "as_bool"
	case kBytes, kString:
		return "as_B"
	case kStruct:
		return fmt.Sprintf("(fun v => let? l := as_L v in read_%s l)", ti.name)
	case kList:
		return fmt.Sprintf("(fun v => let? l := as_L v in omap %s l)", t.readField(*ti.elem))
	case kIface:
		return "read_" + ti.name
	}
	return "(fun _ => None)"
}

func (t *translator) emitCodecs(b *bytes.Buffer) {
	b.WriteString("(* ---- S-expression forms of the records (field order = Go declaration order, as the harness prints them) ---- *)\n")
	b.WriteString("Definition zn (z : Z) : sval := if z <? 0 then SZ z else SN (Z.to_N z).\n")
	b.WriteString("Definition rz (v : sval) : option Z := match v with SN n => Some (Z.of_N n) | SZ z => Some z | _ => None end.\n\n")
	for _, name := range t.order {
		if strings.HasPrefix(name, "iface:") {
			in := strings.TrimPrefix(name, "iface:")
			fmt.Fprintf(b, "Definition show_%s (x : %s) : sval :=\n  match x with\n", in, in)
			for _, m := range ifaceSums[in] {
				if mt := t.memberTy(m); mt.k == kStruct {
					fmt.Fprintf(b, "  | %s_%s a => SL (SY %s :: show_%s a)\n", in, m, coqString(m), m)
				} else {
					fmt.Fprintf(b, "  | %s_%s a => SL [SY %s; %s]\n", in, m, coqString(m), t.showField(mt, "a"))
				}
			}
			fmt.Fprintf(b, "  | %s_nil => SY \"nil\"\n  end.\n", in)
			fmt.Fprintf(b, "Definition read_%s (v : sval) : option %s :=\n  match v with\n  | SL (SY n :: l) =>\n", in, in)
			for _, m := range ifaceSums[in] {
				if mt := t.memberTy(m); mt.k == kStruct {
					fmt.Fprintf(b, "      if String.eqb n %s then (let? a := read_%s l in Some (%s_%s a)) else\n", coqString(m), m, in, m)
				} else {
					fmt.Fprintf(b, "      if String.eqb n %s then (match l with [v1] => let? a := %s v1 in Some (%s_%s a) | _ => None end) else\n", coqString(m), t.readField(mt), in, m)
				}
			}
			b.WriteString("      None\n  | _ => None\n  end.\n\n")
			continue
		}
		if strings.HasPrefix(name, "opaque:") {
			on := strings.TrimPrefix(name, "opaque:")
			fmt.Fprintf(b, "Definition show_%s (x : %s) : list sval := GoOpaque.show_%s x.\nDefinition read_%s (l : list sval) : option %s := GoOpaque.read_%s l.\n\n", on, on, on, on, on, on)
			continue
		}
		s := t.structs[name]
		fmt.Fprintf(b, "Definition zero_%s : %s := %s.\n", name, name, strings.TrimSuffix(strings.TrimPrefix(t.zero(tyInfo{k: kStruct, name: name}), "("), ")"))
		fmt.Fprintf(b, "Definition show_%s (x : %s) : list sval :=\n  [", name, name)
		for i, f := range s.fields {
			if i > 0 {
				b.WriteString("; ")
			}
			b.WriteString(t.showField(f.ty, fmt.Sprintf("(%s_%s x)", name, f.name)))
		}
		b.WriteString("].\n")
		fmt.Fprintf(b, "Definition read_%s (l : list sval) : option %s :=\n  match l with\n  | [", name, name)
		for i := range s.fields {
			if i > 0 {
				b.WriteString("; ")
			}
			fmt.Fprintf(b, "a%d", i)
		}
		b.WriteString("] =>\n")
		for i, f := range s.fields {
			fmt.Fprintf(b, "      let? f%d := %s a%d in\n", i, t.readField(f.ty), i)
		}
		fmt.Fprintf(b, "      Some (mk%s", name)
		for i := range s.fields {
			fmt.Fprintf(b, " f%d", i)
		}
		b.WriteString(")\n  | _ => None\n  end.\n\n")
	}
	// dispatch by Go type name
	type entry struct{ ty, coq string }
	byMethod := map[string][]entry{}
	for _, k := range t.emittedOrder {
		sig := t.sigs[k]
		if !sig.hasRecv || sig.recvTy == "" {
			continue
		}
		if _, ok := t.structs[sig.recvTy]; !ok {
			continue
		}
		m := k[strings.Index(k, ".")+1:]
		fd := t.decls[k]
		np := fd.Type.Params.NumFields()
		switch {
		case (m == "Marshal" || m == "marshal") && np == 0 && sig.hasErr && sig.nres == 1 && sig.resTy[0].k == kBytes && !sig.ptrRecv:
			byMethod["marshal"] = append(byMethod["marshal"], entry{sig.recvTy, sig.coq})
		case (m == "Unmarshal" || m == "unmarshal") && np == 1 && sig.hasErr && sig.nres == 0 && sig.ptrRecv:
			byMethod["unmarshal"] = append(byMethod["unmarshal"], entry{sig.recvTy, sig.coq})
		case m == "MarshalSize" && np == 0 && !sig.hasErr && sig.nres == 1 && !sig.ptrRecv:
			byMethod["size"] = append(byMethod["size"], entry{sig.recvTy, sig.coq})
		case m == "DestinationSSRC" && np == 0 && !sig.hasErr && sig.nres == 1 && !sig.ptrRecv:
			byMethod["dest"] = append(byMethod["dest"], entry{sig.recvTy, sig.coq})
		case m == "Header" && np == 0 && !sig.hasErr && sig.nres == 1 && !sig.ptrRecv:
			byMethod["header"] = append(byMethod["header"], entry{sig.recvTy, sig.coq})
		}
	}
	lift := func(sig *fnSig, call string, f string) string {
		if sig.pure {
			return fmt.Sprintf("Some (%s (%s))", f, call)
		}
		return fmt.Sprintf("Some (sres (fun r => %s r) (%s))", f, call)
	}
	if len(t.mOracles) > 0 {
		// the functions of this module take function-valued oracles: no by-name dispatch (Check/SrcCheck.v calls them
		// with the instantiations of Check/XrOracles.v)
		return
	}
	b.WriteString("(* ---- the translated methods by Go type name ---- *)\n")
	b.WriteString("Definition src_unmarshal (n : string) (b : bytes) : option sval :=\n")
	for _, e := range byMethod["unmarshal"] {
		fmt.Fprintf(b, "  if String.eqb n %s then Some (sres (fun r => SL (SY %s :: show_%s r)) (%s zero_%s b)) else\n", coqString(e.ty), coqString(e.ty), e.ty, e.coq, e.ty)
	}
	b.WriteString("  None.\n")
	for _, kind := range []string{"marshal", "size", "dest", "header"} {
		fmt.Fprintf(b, "Definition src_%s (n : string) (l : list sval) : option sval :=\n", kind)
		for _, e := range byMethod[kind] {
			sig := t.sigs[e.ty+"."+map[string]string{"marshal": "Marshal", "size": "MarshalSize", "dest": "DestinationSSRC", "header": "Header"}[kind]]
			if sig == nil {
				sig = t.sigs[e.ty+".marshal"]
			}
			var f string
			switch kind {
			case "marshal":
				f = "SB"
			case "size":
				f = "zn"
			case "dest":
				f = "(fun d => SL (map zn d))"
			case "header":
				f = "(fun h => SL (show_Header h))"
			}
			fmt.Fprintf(b, "  if String.eqb n %s then (let? x := read_%s l in %s) else\n", coqString(e.ty), e.ty, lift(sig, e.coq+" x", f))
		}
		b.WriteString("  None.\n")
	}
	// the datagram decoder and the list encoder of packet.go, when they are inside the fragment
	b.WriteString("Definition src_dgram (b : bytes) : option sval :=\n")
	if sig, ok := t.sigs["Unmarshal"]; ok && !sig.pure && sig.hasErr && sig.nres == 1 {
		b.WriteString("  Some (sres (fun ps => SL (map show_Packet ps)) (Unmarshal b)).\n")
	} else {
		b.WriteString("  None.\n")
	}
	b.WriteString("Definition src_encs (l : list sval) : option sval :=\n")
	if sig, ok := t.sigs["Marshal"]; ok && !sig.pure && sig.hasErr && sig.nres == 1 {
		b.WriteString("  let? ps := omap read_Packet l in Some (sres SB (Marshal ps)).\n")
	} else {
		b.WriteString("  None.\n")
	}
	// CompoundPacket: validate / cname / marshal / size / dest of a list of packets
	b.WriteString("Definition src_compound (l : list sval) : option (list (string * sval)) :=\n")
	need := []string{"CompoundPacket.Validate", "CompoundPacket.CNAME", "CompoundPacket.Marshal", "CompoundPacket.MarshalSize", "CompoundPacket.DestinationSSRC"}
	all := true
	for _, k := range need {
		if _, ok := t.sigs[k]; !ok {
			all = false
		}
	}
	if all {
		b.WriteString("  let? ps := omap read_Packet l in\n  Some [(\"validate\"%string, sres (fun _ => SY \"unit\") (CompoundPacket_Validate ps));\n        (\"cname\"%string, sres SB (CompoundPacket_CNAME ps));\n        (\"marshal\"%string, sres SB (CompoundPacket_Marshal ps));\n")
		if t.sigs["CompoundPacket.MarshalSize"].pure {
			b.WriteString("        (\"size\"%string, zn (CompoundPacket_MarshalSize ps));\n")
		} else {
			b.WriteString("        (\"size\"%string, sres zn (CompoundPacket_MarshalSize ps));\n")
		}
		if t.sigs["CompoundPacket.DestinationSSRC"].pure {
			b.WriteString("        (\"dest\"%string, SL (map zn (CompoundPacket_DestinationSSRC ps)))].\n")
		} else {
			b.WriteString("        (\"dest\"%string, sres (fun d => SL (map zn d)) (CompoundPacket_DestinationSSRC ps))].\n")
		}
	} else {
		b.WriteString("  None.\n")
	}
	b.WriteString("Definition src_compound_unmarshal (b : bytes) : option sval :=\n")
	if _, ok := t.sigs["CompoundPacket.Unmarshal"]; ok {
		b.WriteString("  Some (sres (fun ps => SL (map show_Packet ps)) (CompoundPacket_Unmarshal [] b)).\n")
	} else {
		b.WriteString("  None.\n")
	}
	// NackPairsFromSequenceNumbers, when it is inside the fragment
	b.WriteString("Definition src_nackpairs (l : list Z) : option sval :=\n")
	if sig, ok := t.sigs["NackPairsFromSequenceNumbers"]; ok && !sig.pure {
		b.WriteString("  Some (sres (fun ps => SL (map (fun p => SL (show_NackPair p)) ps)) (NackPairsFromSequenceNumbers l)).\n")
	} else if ok {
		b.WriteString("  Some (SL (map (fun p => SL (show_NackPair p)) (NackPairsFromSequenceNumbers l))).\n")
	} else {
		b.WriteString("  None.\n")
	}
	b.WriteString("\n")
}

// emitEntryPoints: fixed-signature entry points for Check/SrcCheck.v that exist whether or not the function behind them
// could be translated (`None` when it left the fragment, or when its oracles are not the expected ones): the executable
// check has to keep compiling when a function becomes untranslatable, or there is nothing to search for a failing input with.
func (t *translator) emitEntryPoints(b *bytes.Buffer, mod string) {
	has := func(k string) bool { _, ok := t.sigs[k]; return ok }
	switch mod {
	case "GoSrc":
		b.WriteString("(* ---- NackPair.PacketList / NackPair.Range (with a callback that records its argument and answers false on call k) ---- *)\n")
		if has("NackPair.PacketList") {
			b.WriteString("Definition src_plist (id bm : Z) : option sval := Some (sres (fun l => SL (map zn l)) (NackPair_PacketList (mkNackPair id bm))).\n")
		} else {
			b.WriteString("Definition src_plist (id bm : Z) : option sval := None.\n")
		}
		if sg, ok := t.sigs["NackPair.Range"]; ok && sg.cbIdx > 0 && !sg.pure {
			b.WriteString("Definition src_range (id bm : Z) (k : option nat) : option sval :=\n  Some (sres (fun s : nat * list Z => SL (map zn (snd s)))\n    (NackPair_Range _ (fun s x => ((S (fst s), List.app (snd s) [x]), match k with Some k => negb (Nat.eqb (fst s) k) | None => true end))\n       (mkNackPair id bm) (0%nat, []))).\n\n")
		} else {
			b.WriteString("Definition src_range (id bm : Z) (k : option nat) : option sval := None.\n\n")
		}
	case "GoSrcXr":
		want := []string{"o_read_uint32 : packetBuffer -> Z -> res (packetBuffer * Z)", "o_read_XRHeader : packetBuffer -> XRHeader -> res (packetBuffer * XRHeader)",
			"o_read_ReportBlock : packetBuffer -> ReportBlock -> res (packetBuffer * ReportBlock)"}
		same := len(t.mOracles) == len(want)
		for i := range want {
			same = same && t.mOracles[i] == want[i]
		}
		b.WriteString("(* ---- ExtendedReport.Unmarshal on a zero receiver, given the three read oracles ---- *)\n")
		b.WriteString("Definition src_xr_unmarshal (r32 : packetBuffer -> Z -> res (packetBuffer * Z)) (rh : packetBuffer -> XRHeader -> res (packetBuffer * XRHeader))\n    (rb : packetBuffer -> ReportBlock -> res (packetBuffer * ReportBlock)) (b : bytes) : option sval :=\n")
		if has("ExtendedReport.Unmarshal") && same {
			b.WriteString("  Some (sres (fun g => SL (show_ExtendedReport g)) (ExtendedReport_Unmarshal r32 rh rb (mkExtendedReport 0 []) b)).\n\n")
		} else {
			b.WriteString("  None.\n\n")
		}
	}
}

func genFuncs(l *loaded, want []string) []byte { return genFuncsMod(l, want, "GoSrc", "") }

// genFuncsMod: module name and suffix of the three summary lists
func genFuncsMod(l *loaded, want []string, mod, suffix string) []byte {
	t := newTranslator(l)
	if mod == "GoSrcXr" {
		// the records Check/XrOracles.v is written against exist whatever happens to the functions
		for _, n := range []string{"Header", "XRHeader", "packetBuffer", "ExtendedReport"} {
			t.needStruct(n)
		}
		t.needIface("ReportBlock")
	}
	for _, k := range want {
		t.translate(k)
	}
	var b bytes.Buffer
	b.WriteString(hdr)
	b.WriteString("(* Functions of the package rendered as Gallina by srcgen/trans.go (see Lib/GoSem.v for the semantics of the\n   primitives).  Equivalence with the hand-written model is proved in Proofs/SourceEquiv.v. *)\n")
	b.WriteString("From Coq Require Import List ZArith Bool String.\nFrom RTCP Require Import Lib.Base Lib.Sval Lib.GoSem Lib.GoFloat Check.GoOpaque.\nImport ListNotations.\nLocal Open Scope Z_scope.\n\nModule " + mod + ".\n\n")
	t.emitStructs(&b)
	if len(t.mOracles) > 0 {
		// function-valued oracles (oracleMethods): Section variables; after the section every function that uses one takes
		// it as a leading argument
		b.WriteString("Section MethodOracles.\n")
		for _, o := range t.mOracles {
			b.WriteString("Variable " + o + ".\n")
		}
		b.WriteString("\n")
	}
	b.Write(t.body.Bytes())
	if len(t.mOracles) > 0 {
		b.WriteString("End MethodOracles.\n\n")
	}
	t.emitCodecs(&b)
	t.emitEntryPoints(&b, mod)
	b.WriteString("End " + mod + ".\n\n")
	sort.Strings(t.emitted)
	b.WriteString("Definition translated_functions" + suffix + " : list string := [")
	for i, k := range t.emitted {
		if i > 0 {
			b.WriteString("; ")
		}
		b.WriteString(coqString(k))
	}
	b.WriteString("]%string.\n")
	// methods that write through their (pointer) receiver, as decided by the translator's syntactic pass
	var writers []string
	for _, k := range t.emitted {
		if sg := t.sigs[k]; sg != nil && sg.ptrRecv {
			writers = append(writers, k)
		}
	}
	b.WriteString("Definition receiver_writing_methods" + suffix + " : list string := [")
	for i, k := range writers {
		if i > 0 {
			b.WriteString("; ")
		}
		b.WriteString(coqString(k))
	}
	b.WriteString("]%string.\n")
	b.WriteString("Definition untranslatable_functions" + suffix + " : list (string * string * string) := [")
	for i, f := range t.failed {
		if i > 0 {
			b.WriteString(";\n  ")
		}
		fmt.Fprintf(&b, "(%s, %s, %s)", coqString(f[0]), coqString(f[1]), coqString(f[2]))
	}
	b.WriteString("]%string.\n")
	return b.Bytes()
}
