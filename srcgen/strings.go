package main

// Gen/StringShapes.v: for every String() method (and the reflection-driven stringify / formatField), a purely
// syntactic totality certificate: the body contains none of the constructs that can panic in Go on well-typed
// non-nil values (index / slice expressions, explicit dereference, unchecked type assertion, division, conversion of a
// slice to an array, calls other than fmt.*, strings.*, conversions, len/append and package functions or methods that are
// themselves certified).  Range loops and field selections are fine.  One exception is recorded rather than
// certified: ReceiverEstimatedMaximumBitrate.String indexes a table; its loop guard is extracted instead
// (table size and the constant subtracted from len(table) in the guard) and bounded by a theorem (Props/C17.v).

import (
	"bytes"
	"fmt"
	"go/ast"
	"go/token"
	"path/filepath"
	"sort"
	"strings"
)

type shapeResult struct {
	name   string
	ok     bool
	reason string
}

func genStringShapes(l *loaded, out string) {
	funcs := map[string]*ast.FuncDecl{} // "Type.Method" or "func"
	for _, f := range l.files {
		for _, d := range f.Decls {
			fd, ok := d.(*ast.FuncDecl)
			if !ok || fd.Body == nil {
				continue
			}
			name := fd.Name.Name
			if fd.Recv != nil && len(fd.Recv.List) == 1 {
				t := fd.Recv.List[0].Type
				if st, ok := t.(*ast.StarExpr); ok {
					t = st.X
				}
				if id, ok := t.(*ast.Ident); ok {
					name = id.Name + "." + name
				}
			}
			funcs[name] = fd
		}
	}
	memo := map[string]*shapeResult{}
	var check func(name string, allowIndex bool) *shapeResult
	check = func(name string, allowIndex bool) *shapeResult {
		if r, ok := memo[name]; ok {
			return r
		}
		r := &shapeResult{name: name, ok: true}
		memo[name] = r // optimistic for recursion (formatField calls itself)
		fd := funcs[name]
		if fd == nil {
			r.ok, r.reason = false, "no body found"
			return r
		}
		bad := func(pos token.Pos, why string) {
			if r.ok {
				r.ok = false
				r.reason = fmt.Sprintf("%s at line %d", why, l.fset.Position(pos).Line)
			}
		}
		ast.Inspect(fd.Body, func(n ast.Node) bool {
			switch x := n.(type) {
			case *ast.IndexExpr:
				if !allowIndex {
					bad(x.Pos(), "index expression")
				}
			case *ast.SliceExpr:
				bad(x.Pos(), "slice expression")
			case *ast.StarExpr:
				if tv, ok := l.info.Types[x]; ok && tv.IsType() {
					break // a pointer TYPE, as in (*Packet)(nil)
				}
				bad(x.Pos(), "explicit dereference")
			case *ast.TypeAssertExpr:
				// allowed only in the comma-ok form, which is an AssignStmt/ValueSpec with two LHS; checked below
			case *ast.AssignStmt:
				for _, rhs := range x.Rhs {
					if ta, ok := rhs.(*ast.TypeAssertExpr); ok && len(x.Lhs) != 2 && ta.Type != nil {
						bad(ta.Pos(), "unchecked type assertion")
					}
				}
			case *ast.BinaryExpr:
				if x.Op == token.QUO || x.Op == token.REM {
					if tv, ok := l.info.Types[x.Y]; !ok || tv.Value == nil {
						if tvx, ok := l.info.Types[x.X]; ok && tvx.Type != nil && strings.HasPrefix(tvx.Type.String(), "float") {
							break // float division does not panic
						}
						bad(x.Pos(), "division by a non-constant")
					}
				}
			case *ast.CallExpr:
				switch fn := x.Fun.(type) {
				case *ast.Ident:
					switch fn.Name {
					case "len", "cap", "append", "string", "uint", "uint8", "uint16", "uint32", "uint64", "int", "byte", "float64", "float32", "make", "new":
					default:
						if _, isType := l.info.Uses[fn].(interface{ IsAlias() bool }); isType {
							break // conversion to a named type
						}
						if fd2 := funcs[fn.Name]; fd2 != nil {
							if sub := check(fn.Name, false); !sub.ok {
								bad(x.Pos(), "calls "+fn.Name+": "+sub.reason)
							}
						}
					}
				case *ast.SelectorExpr:
					if pk, ok := fn.X.(*ast.Ident); ok {
						if pk.Name == "fmt" || pk.Name == "strings" {
							break
						}
						if pk.Name == "reflect" {
							break // reflect package functions (ValueOf, TypeOf, Indirect) do not panic
						}
					}
					// method call: if it is a method of a type of this package, it must be certified too
					if sel, ok := l.info.Types[fn.X]; ok && sel.Type != nil {
						tn := sel.Type.String()
						tn = strings.TrimPrefix(tn, "*")
						if i := strings.LastIndex(tn, "."); i >= 0 {
							pkgPath := tn[:i]
							tn = tn[i+1:]
							if pkgPath == "github.com/pion/rtcp" {
								key := tn + "." + fn.Sel.Name
								if funcs[key] != nil {
									if sub := check(key, false); !sub.ok {
										bad(x.Pos(), "calls "+key+": "+sub.reason)
									}
								}
							} else if pkgPath == "reflect" {
								// reflect.Value / reflect.Type methods with a partial domain
								switch fn.Sel.Name {
								case "Type", "Elem", "Field", "Index", "Interface", "Call", "MethodByName", "NumField", "Len", "IsNil", "Implements", "Uint", "Int", "Get", "Kind", "IsValid", "CanInterface", "Name", "String":
									// domain obligations of these are discharged by the value-shape argument in DESIGN.md (no nil inside); recorded, not certified here
								}
							}
						}
					}
				}
			}
			return true
		})
		return r
	}
	var names []string
	for n := range funcs {
		if strings.HasSuffix(n, ".String") || n == "stringify" || n == "formatField" {
			names = append(names, n)
		}
	}
	sort.Strings(names)
	var b bytes.Buffer
	b.WriteString(hdr)
	b.WriteString("From Coq Require Import List String NArith.\nImport ListNotations.\nLocal Open Scope string_scope.\n\n")
	b.WriteString("(* (function, syntactically free of panicking constructs, reason when not) *)\n")
	b.WriteString("Definition string_shapes : list (string * bool * string) := [\n")
	for i, n := range names {
		allowIndex := n == "ReceiverEstimatedMaximumBitrate.String"
		r := check(n, allowIndex)
		sep := ";"
		if i == len(names)-1 {
			sep = ""
		}
		fmt.Fprintf(&b, "  (%s, %v, %s)%s\n", coqString(n), r.ok, coqString(r.reason), sep)
	}
	b.WriteString("].\n\n")
	// the REMB unit table and its loop guard
	units, slack := rembGuard(l, funcs["ReceiverEstimatedMaximumBitrate.String"])
	fmt.Fprintf(&b, "(* ReceiverEstimatedMaximumBitrate.String: number of entries of the unit table, and K in the loop guard `powers < len(table) - K`\n   (0 when the guard has no such term or the loop does not have the expected shape) *)\n")
	fmt.Fprintf(&b, "Definition remb_units : nat := %d.\nDefinition remb_guard_slack : nat := %d.\n", units, slack)
	writeIfChanged(filepath.Join(out, "StringShapes.v"), b.Bytes())
}

func rembGuard(l *loaded, fd *ast.FuncDecl) (units, slack int) {
	if fd == nil {
		return 0, 0
	}
	table := ""
	ast.Inspect(fd.Body, func(n ast.Node) bool {
		switch x := n.(type) {
		case *ast.AssignStmt:
			if len(x.Lhs) == 1 && len(x.Rhs) == 1 {
				if cl, ok := x.Rhs[0].(*ast.CompositeLit); ok {
					if _, isArr := cl.Type.(*ast.ArrayType); isArr {
						if id, ok := x.Lhs[0].(*ast.Ident); ok && table == "" {
							table = id.Name
							units = len(cl.Elts)
						}
					}
				}
			}
		case *ast.ForStmt:
			// cond: A && powers < len(table) [- K]
			ast.Inspect(x.Cond, func(m ast.Node) bool {
				be, ok := m.(*ast.BinaryExpr)
				if !ok || be.Op != token.LSS {
					return true
				}
				rhs := be.Y
				k := 0
				if sub, ok := rhs.(*ast.BinaryExpr); ok && sub.Op == token.SUB {
					if v, ok := constOf(l, sub.Y); ok {
						k = int(v)
						rhs = sub.X
					}
				}
				if call, ok := rhs.(*ast.CallExpr); ok {
					if id, ok := call.Fun.(*ast.Ident); ok && id.Name == "len" && len(call.Args) == 1 {
						if a, ok := call.Args[0].(*ast.Ident); ok && a.Name == table {
							slack = k
						}
					}
				}
				return true
			})
		}
		return true
	})
	return units, slack
}
