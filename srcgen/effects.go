// Conservative write-effect summary per method, via SSA (see DESIGN.md Appendix E).
package main

import (
	"bytes"
	"fmt"
	"go/token"
	"go/types"
	"path/filepath"
	"sort"
	"strings"

	"golang.org/x/tools/go/packages"
	"golang.org/x/tools/go/ssa"
	"golang.org/x/tools/go/ssa/ssautil"
)

// A region is a class of memory a pointer-like value may point into.
type region string // "local:<id>", "param:<i>", "global:<name>", "fresh", "unknown"

type rset map[region]bool

func (a rset) add(b rset) bool {
	ch := false
	for r := range b {
		if !a[r] {
			a[r] = true
			ch = true
		}
	}
	return ch
}
func one(r region) rset { return rset{r: true} }

type summary struct {
	writes  map[int]bool // param indices whose reachable memory may be written
	global  map[string]bool
	unknown []string
	ret     []rset // per result index: regions, in terms of param:<i>/fresh/global/unknown
	sites   []string
}

type analyzer struct {
	prog   *ssa.Program
	pkg    *ssa.Package
	fset   *token.FileSet
	memo   map[*ssa.Function]*summary
	active map[*ssa.Function]bool
	mk     map[string]map[string]bool
}

func hasPointers(t types.Type) bool {
	switch u := t.Underlying().(type) {
	case *types.Basic:
		return u.Kind() == types.String || u.Kind() == types.UnsafePointer
	case *types.Struct:
		for i := 0; i < u.NumFields(); i++ {
			if hasPointers(u.Field(i).Type()) {
				return true
			}
		}
		return false
	case *types.Array:
		return hasPointers(u.Elem())
	default:
		return true
	}
}

func (a *analyzer) summarize(f *ssa.Function) *summary {
	if s, ok := a.memo[f]; ok {
		return s
	}
	s := &summary{writes: map[int]bool{}, global: map[string]bool{}}
	for i := 0; i < f.Signature.Results().Len(); i++ {
		s.ret = append(s.ret, rset{})
	}
	if a.active[f] || f.Blocks == nil {
		if f.Blocks == nil {
			s.unknown = append(s.unknown, "no body: "+f.String())
		}
		return s // recursion: optimistic inner, fixpoint not needed for the spike
	}
	a.active[f] = true
	defer func() { delete(a.active, f); a.memo[f] = s }()

	pts := map[ssa.Value]rset{}
	contents := map[region]rset{}
	get := func(v ssa.Value) rset {
		if r, ok := pts[v]; ok {
			return r
		}
		switch x := v.(type) {
		case *ssa.Parameter:
			for i, p := range f.Params {
				if p == x {
					if hasPointers(x.Type()) {
						return one(region(fmt.Sprintf("param:%d", i)))
					}
					return rset{}
				}
			}
		case *ssa.Global:
			return one(region("global:" + x.Name()))
		case *ssa.FreeVar:
			return one("unknown")
		case *ssa.Const, *ssa.Function, *ssa.Builtin:
			return rset{}
		}
		return rset{}
	}
	load := func(addr rset) rset {
		out := rset{}
		for r := range addr {
			if strings.HasPrefix(string(r), "local:") || r == "fresh" {
				out.add(contents[r])
			} else {
				out[r] = true
			}
		}
		return out
	}
	write := func(addr rset, val rset, site string) {
		for r := range addr {
			switch {
			case strings.HasPrefix(string(r), "local:") || r == "fresh":
				if contents[r] == nil {
					contents[r] = rset{}
				}
				contents[r].add(val)
			case strings.HasPrefix(string(r), "param:"):
				var i int
				fmt.Sscanf(string(r), "param:%d", &i)
				if !s.writes[i] {
					s.sites = append(s.sites, site)
				}
				s.writes[i] = true
			case strings.HasPrefix(string(r), "global:"):
				s.global[string(r)] = true
				s.sites = append(s.sites, site)
			default:
				s.unknown = append(s.unknown, site)
			}
		}
	}
	pos := func(i ssa.Instruction) string {
		p := a.fset.Position(i.Pos())
		return fmt.Sprintf("%s:%d", strings.TrimPrefix(p.Filename, "/repo/"), p.Line)
	}
	tupleOf := map[string][]rset{}
	var lastTuple []rset
	tuples := map[ssa.Value][]rset{}
	_ = tupleOf
	applyCallee := func(callee *ssa.Function, args []ssa.Value, site string) rset {
		cs := a.summarize(callee)
		for i := range cs.writes {
			if i < len(args) {
				write(get(args[i]), rset{}, site+" via "+callee.Name())
			}
		}
		for g := range cs.global {
			s.global[g] = true
		}
		for _, u := range cs.unknown {
			s.unknown = append(s.unknown, site+" via "+callee.Name()+": "+u)
		}
		outs := make([]rset, len(cs.ret))
		for k := range cs.ret {
			out := rset{}
			for r := range cs.ret[k] {
				if strings.HasPrefix(string(r), "param:") {
					var i int
					fmt.Sscanf(string(r), "param:%d", &i)
					if i < len(args) {
						out.add(get(args[i]))
					}
				} else if strings.HasPrefix(string(r), "local:") {
					out["fresh"] = true
				} else {
					out[r] = true
				}
			}
			outs[k] = out
		}
		tupleOf[site+callee.String()] = outs
		out := rset{}
		if len(outs) == 1 {
			out = outs[0]
		}
		lastTuple = outs
		return out
	}

	changed := true
	for iter := 0; changed && iter < 20; iter++ {
		changed = false
		set := func(v ssa.Value, r rset) {
			if pts[v] == nil {
				pts[v] = rset{}
			}
			if pts[v].add(r) {
				changed = true
			}
		}
		for _, b := range f.Blocks {
			for _, in := range b.Instrs {
				switch x := in.(type) {
				case *ssa.Alloc:
					set(x, one(region(fmt.Sprintf("local:%p", x))))
				case *ssa.MakeSlice, *ssa.MakeMap, *ssa.MakeChan:
					set(x.(ssa.Value), one(region(fmt.Sprintf("local:%p", x))))
				case *ssa.FieldAddr:
					set(x, get(x.X))
				case *ssa.IndexAddr:
					set(x, get(x.X))
				case *ssa.Field:
					set(x, get(x.X))
				case *ssa.Index:
					set(x, get(x.X))
				case *ssa.Slice:
					set(x, get(x.X))
				case *ssa.ChangeType:
					set(x, get(x.X))
				case *ssa.Convert:
					if hasPointers(x.Type()) {
						if _, isStr := x.Type().Underlying().(*types.Basic); isStr {
							set(x, one("fresh")) // string([]byte) / []byte(string) copy
						} else if _, isSl := x.Type().Underlying().(*types.Slice); isSl {
							if b, ok := x.X.Type().Underlying().(*types.Basic); ok && b.Kind() == types.String {
								set(x, one("fresh"))
							} else {
								set(x, get(x.X))
							}
						} else {
							set(x, get(x.X))
						}
					}
				case *ssa.ChangeInterface:
					set(x, get(x.X))
				case *ssa.MakeInterface:
					set(x, get(x.X))
				case *ssa.TypeAssert:
					set(x, get(x.X))
				case *ssa.Extract:
					if t, ok := tuples[x.Tuple]; ok && x.Index < len(t) {
						set(x, t[x.Index])
					} else {
						set(x, get(x.Tuple))
					}
				case *ssa.Phi:
					for _, e := range x.Edges {
						set(x, get(e))
					}
				case *ssa.UnOp:
					if x.Op == token.MUL {
						set(x, load(get(x.X)))
					}
				case *ssa.Lookup:
					set(x, get(x.X))
				case *ssa.Range, *ssa.Next:
					// range over map/string only (slices are lowered to IndexAddr)
				case *ssa.MakeClosure:
					for _, bnd := range x.Bindings {
						set(x, get(bnd))
					}
				case *ssa.Store:
					write(get(x.Addr), get(x.Val), pos(x))
				case *ssa.MapUpdate:
					write(get(x.Map), get(x.Value), pos(x))
				case ssa.CallInstruction:
					c := x.Common()
					v, _ := x.(ssa.Value)
					site := pos(x)
					var res rset
					switch {
					case c.IsInvoke() && c.Method.Pkg() != nil && c.Method.Pkg() != a.pkg.Pkg && !(c.Method.Name() == "String" || c.Method.Name() == "Error"):
						res = one("fresh")
						for _, ar := range c.Args {
							res.add(get(ar))
						}
						res.add(get(c.Value))
					case c.IsInvoke():
						// class-hierarchy resolution inside the package
						res = rset{}
						found := false
						for _, T := range a.prog.RuntimeTypes() {
							_ = T
						}
						for _, mem := range a.pkg.Members {
							tn, ok := mem.(*ssa.Type)
							if !ok {
								continue
							}
							for _, T := range []types.Type{tn.Type(), types.NewPointer(tn.Type())} {
								ms := a.prog.MethodSets.MethodSet(T)
								sel := ms.Lookup(c.Method.Pkg(), c.Method.Name())
								if sel == nil {
									continue
								}
								if !types.Implements(T, c.Value.Type().Underlying().(*types.Interface)) {
									continue
								}
								if !a.flowsTo(T, c.Value.Type()) {
									continue
								}
								callee := a.prog.MethodValue(sel)
								if callee == nil {
									continue
								}
								found = true
								args := append([]ssa.Value{c.Value}, c.Args...)
								res.add(applyCallee(callee, args, site))
							}
						}
						if !found {
							s.unknown = append(s.unknown, site+": invoke "+c.Method.Name()+" unresolved")
						}
					case c.StaticCallee() != nil:
						callee := c.StaticCallee()
						name := callee.String()
						switch {
						case callee.Pkg == a.pkg || (callee.Pkg == nil && callee.Parent() != nil):
							res = applyCallee(callee, c.Args, site)
						case strings.HasPrefix(name, "(encoding/binary.bigEndian).Put"):
							write(get(c.Args[1]), rset{}, site+" binary.Put")
						case strings.HasPrefix(name, "(reflect.Value).Set"):
							write(get(c.Args[0]), get(c.Args[len(c.Args)-1]), site+" reflect.Set")
						case name == "reflect.NewAt":
							res = get(c.Args[1])
						case name == "reflect.ValueOf" || name == "reflect.Indirect" || strings.HasPrefix(name, "(reflect.Value)."):
							res = rset{}
							for _, ar := range c.Args {
								res.add(get(ar))
							}
						case name == "reflect.Append":
							res = one("fresh")
							res.add(get(c.Args[0]))
							res.add(get(c.Args[1]))
						default:
							// external: assumed not to write through its arguments; result fresh
							res = one("fresh")
						}
					default:
						if bi, ok := c.Value.(*ssa.Builtin); ok {
							switch bi.Name() {
							case "append":
								// may write into spare capacity of arg0's backing array
								base := get(c.Args[0])
								shared := rset{}
								for r := range base {
									if !(strings.HasPrefix(string(r), "local:") || r == "fresh") {
										shared[r] = true
									}
								}
								write(shared, rset{}, site+" append")
								res = rset{}
								res.add(base)
								res["fresh"] = true
								if len(c.Args) > 1 {
									// elements appended may carry pointers
									if contents["fresh"] == nil {
										contents["fresh"] = rset{}
									}
									contents["fresh"].add(load(get(c.Args[1])))
									contents["fresh"].add(get(c.Args[1]))
									for r := range base {
										if strings.HasPrefix(string(r), "local:") {
											if contents[r] == nil {
												contents[r] = rset{}
											}
											contents[r].add(get(c.Args[1]))
										}
									}
								}
							case "copy":
								write(get(c.Args[0]), load(get(c.Args[1])), site+" copy")
							case "ssa:wrapnilchk":
								res = get(c.Args[0])
							case "len", "cap", "panic", "print", "println", "min", "max", "recover":
								res = rset{}
							default:
								s.unknown = append(s.unknown, site+": builtin "+bi.Name())
								res = one("unknown")
							}
						} else {
							// call of a function value
							s.unknown = append(s.unknown, site+": dynamic call")
							res = one("unknown")
						}
					}
					if v != nil && lastTuple != nil && len(lastTuple) > 1 {
						old := tuples[v]
						if old == nil {
							old = make([]rset, len(lastTuple))
							for k := range old {
								old[k] = rset{}
							}
						}
						for k := range lastTuple {
							if k < len(old) && old[k].add(lastTuple[k]) {
								changed = true
							}
						}
						tuples[v] = old
					}
					lastTuple = nil
					if v != nil && res != nil {
						set(v, res)
					}
				case *ssa.Return:
					for k, r := range x.Results {
						if k >= len(s.ret) {
							continue
						}
						if s.ret[k].add(get(r)) {
							changed = true
						}
						for rg := range get(r) {
							if strings.HasPrefix(string(rg), "local:") || rg == "fresh" {
								if s.ret[k].add(contents[rg]) {
									changed = true
								}
							}
						}
					}
				}
			}
		}
	}
	return s
}

func genEffects(dir, out string) {
	cfg := &packages.Config{Mode: packages.LoadAllSyntax, Dir: dir}
	pkgs, err := packages.Load(cfg, ".")
	if err != nil || len(pkgs) != 1 {
		die("effects: load: %v", err)
	}
	if len(pkgs[0].Errors) > 0 {
		die("effects: %v", pkgs[0].Errors)
	}
	prog, spkgs := ssautil.AllPackages(pkgs, ssa.InstantiateGenerics)
	prog.Build()
	a := &analyzer{prog: prog, pkg: spkgs[0], fset: pkgs[0].Fset, memo: map[*ssa.Function]*summary{}, active: map[*ssa.Function]bool{}}
	ops := map[string]bool{"Marshal": true, "MarshalSize": true, "DestinationSSRC": true, "String": true, "Header": true, "Len": true, "Unmarshal": true,
		"Validate": true, "CNAME": true, "PacketList": true, "Range": true, "MarshalTo": true}
	var lines []string
	for _, mem := range a.pkg.Members {
		tn, ok := mem.(*ssa.Type)
		if !ok {
			continue
		}
		for _, T := range []types.Type{tn.Type(), types.NewPointer(tn.Type())} {
			ms := prog.MethodSets.MethodSet(T)
			for i := 0; i < ms.Len(); i++ {
				sel := ms.At(i)
				if !ops[sel.Obj().Name()] {
					continue
				}
				fn := prog.MethodValue(sel)
				if fn == nil || fn.Synthetic != "" {
					continue
				}
				s := a.summarize(fn)
				var w []string
				for i := range s.writes {
					w = append(w, fmt.Sprintf("param%d", i))
				}
				for g := range s.global {
					w = append(w, g)
				}
				sort.Strings(w)
				recv := "value"
				if _, isPtr := fn.Signature.Recv().Type().(*types.Pointer); isPtr {
					recv = "pointer"
				}
				var ws []string
				for _, x := range w {
					ws = append(ws, coqString(x))
				}
				lines = append(lines, fmt.Sprintf("  (%s, %s, %s, [%s])", coqString(tn.Name()), coqString(sel.Obj().Name()), coqString(recv), strings.Join(ws, "; ")))
			}
		}
	}
	// package-level functions of the public API
	for _, name := range []string{"Unmarshal", "Marshal", "NackPairsFromSequenceNumbers"} {
		if fn := a.pkg.Func(name); fn != nil {
			s := a.summarize(fn)
			var w []string
			for i := range s.writes {
				w = append(w, fmt.Sprintf("param%d", i))
			}
			for g := range s.global {
				w = append(w, g)
			}
			sort.Strings(w)
			var ws []string
			for _, x := range w {
				ws = append(ws, coqString(x))
			}
			lines = append(lines, fmt.Sprintf("  (%s, %s, %s, [%s])", coqString(""), coqString(name), coqString("func"), strings.Join(ws, "; ")))
		}
	}
	sort.Strings(lines)
	// dedupe (value-receiver methods appear in both method sets)
	var uniq []string
	for i, l := range lines {
		if i == 0 || l != lines[i-1] {
			uniq = append(uniq, l)
		}
	}
	var b bytes.Buffer
	b.WriteString(hdr)
	b.WriteString("From Coq Require Import List String.\nImport ListNotations.\nLocal Open Scope string_scope.\n\n")
	b.WriteString("(* (type, method, receiver kind, shared locations the method may write: paramN = memory reachable from parameter N (0 = receiver), or a global's name) *)\n")
	b.WriteString("Definition effects : list (string * string * string * list string) := [\n")
	b.WriteString(strings.Join(uniq, ";\n"))
	b.WriteString("\n].\n")
	writeIfChanged(filepath.Join(out, "Effects.v"), b.Bytes())
	fmt.Printf("srcgen: effects for %d methods written\n", len(uniq))
}

// flowsTo: is a value of concrete type T converted to interface type I anywhere in the package
// (MakeInterface), directly or through an interface-to-interface change?
func (a *analyzer) flowsTo(T types.Type, I types.Type) bool {
	if a.mk == nil {
		a.mk = map[string]map[string]bool{}
		for fn := range ssautil.AllFunctions(a.prog) {
			if fn.Pkg != a.pkg && !(fn.Pkg == nil && fn.Parent() != nil && fn.Parent().Pkg == a.pkg) {
				continue
			}
			for _, b := range fn.Blocks {
				for _, in := range b.Instrs {
					if mi, ok := in.(*ssa.MakeInterface); ok {
						k := mi.Type().String()
						if a.mk[k] == nil {
							a.mk[k] = map[string]bool{}
						}
						a.mk[k][mi.X.Type().String()] = true
					}
				}
			}
		}
	}
	if a.mk[I.String()][T.String()] {
		return true
	}
	// interfaces other than the two the package defines for its own plug-in points are not refined
	n := I.String()
	if strings.HasSuffix(n, ".PacketStatusChunk") || strings.HasSuffix(n, ".ReportBlock") {
		return false
	}
	return true
}

func firstN(s []string, n int) []string {
	if len(s) > n {
		return s[:n]
	}
	return s
}
